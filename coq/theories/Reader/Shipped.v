(** The reader theorem carried to the parser that is shipped: the machine (the model of the generated Go code,
    Model/Machine.v) of the -inline -switch tree of peg.peg, memoised or not, accepts the text of every
    well-formed file, and Execute() over its tokens makes the calls of the file.
    Composition of reader_file (Reader/Top.v), optimize_sound (the -switch tree has the same derivations) and
    the machine theorems C03/C04 (Proofs/Top.v) at the regenerated trees. *)
From PegV Require Import Base.Tac Base.ListX Spec.Syntax Spec.Peg Spec.Tokens Spec.WF Model.Machine Model.Runtime Model.SkipCheck Model.Optimize Model.Gen
  Proofs.PegFacts Proofs.PegRel Proofs.OptSound Proofs.Top Proofs.OptTop Model.Calls Generated.PegPeg
  Reader.Base Reader.BridgeDefs Reader.File Reader.FileBridge Reader.Safe Reader.Top.
Local Open Scope nat_scope.

Lemma pegpeg_facts :
  wf_auto pegpeg_d = true /\ good_grammar_b pegpeg_is = true /\ good_switches_b pegpeg_is = true /\
  optimize pegpeg_d = pegpeg_is /\ opt_ok_b pegpeg_d = true /\ pegpeg_is_ptx = pegpeg_d_ptx /\ pr_Grammar = 0.
Proof. vm_compute. repeat split; reflexivity. Qed.

(** the two trees give the same rules to the same actions *)
Definition ract_of (g : grammar) (r : nat) : option nat := match nth_error g r with Some (RAct k) => Some k | _ => None end.
Lemma same_actions : forall r, ract_of pegpeg_is r = ract_of pegpeg_d r.
Proof.
  assert (H : forallb (fun r => match ract_of pegpeg_is r, ract_of pegpeg_d r with
                                | Some a, Some b => Nat.eqb a b | None, None => true | _, _ => false end)
                      (seq 0 (Nat.max (length pegpeg_is) (length pegpeg_d))) = true) by (vm_compute; reflexivity).
  intros r. destruct (Nat.lt_ge_cases r (Nat.max (length pegpeg_is) (length pegpeg_d))) as [L|L].
  - pose proof (proj1 (forallb_forall _ _) H r ltac:(apply in_seq; lia)) as E. cbv beta in E.
    destruct (ract_of pegpeg_is r), (ract_of pegpeg_d r); try discriminate; [apply Nat.eqb_eq in E; congruence|reflexivity].
  - unfold ract_of. rewrite (proj2 (nth_error_None pegpeg_is r)) by lia. rewrite (proj2 (nth_error_None pegpeg_d r)) by lia. reflexivity.
Qed.

Lemma trace_same ptx : forall f txt, trace_forest pegpeg_is ptx f txt = trace_forest pegpeg_d ptx f txt.
Proof.
  apply (forest_ind2 (fun t => forall txt, trace_dt pegpeg_is ptx t txt = trace_dt pegpeg_d ptx t txt)
                     (fun f => forall txt, trace_forest pegpeg_is ptx f txt = trace_forest pegpeg_d ptx f txt)).
  - intros r b e kids IH txt. rewrite !RuntimeProofs.trace_dt_node, IH.
    destruct (trace_forest pegpeg_d ptx kids txt) as [evs t1]. destruct (r =? ptx); [reflexivity|].
    pose proof (same_actions r) as E. unfold ract_of in E.
    destruct (nth_error pegpeg_is r) as [[?|k|]|], (nth_error pegpeg_d r) as [[?|k'|]|]; try discriminate; try reflexivity.
    inv E. reflexivity.
  - reflexivity.
  - intros t f IHt IHf txt. cbn [trace_forest]. rewrite IHt. destruct (trace_dt pegpeg_d ptx t txt) as [e1 t1]. rewrite IHf. reflexivity.
Qed.

Section Shipped.
Variable nm : list rune -> nat.
Variable ak : list rune -> nat.
Variable penv : nat -> nat -> bool.

(** the calls Execute() makes over a token sequence *)
Definition calls_of_tokens (g : grammar) (ptx : nat) (buf : list rune) (ts : list tok) : list call :=
  calls (map (fun kt : nat * (nat * nat) => (fst kt, sub buf (snd kt))) (execute g ptx ts (0, 0))).

Theorem reader_file_shipped f memo inline st0 :
  file_ok f -> good_buf (fshow f) -> valid_buf (fshow f) -> slot_ok pegpeg_is inline 0 ->
  exists n st' nodes,
    machine pegpeg_is pegpeg_is_ptx (fshow f) penv memo inline n 0 st0 = Some (Ret true st') /\
    calls_of_tokens pegpeg_is pegpeg_is_ptx (fshow f) (live st') = fcalls f /\
    frun nm ak (fcalls f) finit = Some {| back := nodes; pend := None; stk := []; pegn := None |} /\
    file_nodes nm ak f = Some nodes.
Proof.
  intros Hok Hgb Hvb Hslot.
  destruct pegpeg_facts as (Hwf & Hg2 & Hs2 & Eopt & Hopt & Eptx & Er0).
  destruct (reader_file nm ak penv f Hok) as (n & fo & evs & nodes & Hev & Hcalls & Hrun & Hnodes).
  assert (Hp : peg_parse pegpeg_d pegpeg_d_ptx (fshow f) penv n 0 = Some (Succ (length (fshow f)) fo, evs)).
  { unfold peg_parse. rewrite <- Er0. exact Hev. }
  destruct (optimize_sound pegpeg_d (nul_table pegpeg_d) (rank_table pegpeg_d (nul_table pegpeg_d)) Hwf Hopt
              pegpeg_d_ptx (fshow f) penv Hvb 0 n _ Hp) as (m & evs' & Hp'). cbn [fst] in Hp'. rewrite Eopt in Hp'.
  rewrite <- Eptx in Hp'.
  destruct (c04_execute pegpeg_is pegpeg_is_ptx (fshow f) penv (good_grammar_b_ok _ Hg2) Hgb (good_switches_b_ok _ Hs2)
              memo inline m 0 st0 _ _ _ Hslot Hp') as (st' & Hm & Hex).
  exists m, st', nodes. split; [exact Hm|]. split; [|split; assumption].
  unfold calls_of_tokens. rewrite Hex, trace_same, Eptx. exact Hcalls.
Qed.

(** a text the rule tree refuses is refused by the shipped parser: Parse() reports an error *)
Theorem rejected_shipped buf memo inline st0 :
  ko pegpeg_d pegpeg_d_ptx buf penv (EName pr_Grammar) 0 -> good_buf buf -> valid_buf buf -> slot_ok pegpeg_is inline 0 ->
  exists n st', machine pegpeg_is pegpeg_is_ptx buf penv memo inline n 0 st0 = Some (Ret false st').
Proof.
  intros (n & evs & Hev) Hgb Hvb Hslot.
  destruct pegpeg_facts as (Hwf & Hg2 & Hs2 & Eopt & Hopt & Eptx & Er0).
  assert (Hp : peg_parse pegpeg_d pegpeg_d_ptx buf penv n 0 = Some (Fail, evs)).
  { unfold peg_parse. rewrite <- Er0. exact Hev. }
  destruct (optimize_sound pegpeg_d (nul_table pegpeg_d) (rank_table pegpeg_d (nul_table pegpeg_d)) Hwf Hopt
              pegpeg_d_ptx buf penv Hvb 0 n _ Hp) as (m & evs' & Hp'). cbn [fst] in Hp'. rewrite Eopt in Hp'.
  rewrite <- Eptx in Hp'.
  pose proof (c01_verdict_prefix pegpeg_is pegpeg_is_ptx buf penv (good_grammar_b_ok _ Hg2) Hgb (good_switches_b_ok _ Hs2)
                memo inline m 0 st0 _ Hslot Hp') as Hm. cbn [fst] in Hm. destruct Hm as (st' & Hm).
  exists m, st'. exact Hm.
Qed.

(** Every text.  Whatever runes the shipped parser is given (code points, none of them the end symbol), it
    terminates, and either Parse() reports an error or the calls Execute() makes over its tokens go through the
    builder - no empty-stack pop, no misused node - and leave a package name, the parser type with its state, at
    least one rule and nothing half-built: never a crash, never an empty parser.
    (totality of the reference semantics on peg.peg's well-formed tree, then rejected_shipped or, for an accepted
    text, optimize_sound + the machine theorems + Reader/Safe.v's accepted_text_builds.) *)
Theorem every_text_shipped buf memo inline st0 :
  good_buf buf -> valid_buf buf -> slot_ok pegpeg_is inline 0 ->
  exists n b st', machine pegpeg_is pegpeg_is_ptx buf penv memo inline n 0 st0 = Some (Ret b st') /\
    (b = true ->
     exists s', frun nm ak (calls_of_tokens pegpeg_is pegpeg_is_ptx buf (live st')) finit = Some s' /\
       stk s' = [] /\ pend s' = None /\ pegn s' = None /\
       (exists pk, In (NPackage pk) (back s')) /\ (exists name st, In (NPeg name st) (back s')) /\
       (exists name e, In (NRule name e) (back s'))).
Proof.
  intros Hgb Hvb Hslot.
  destruct pegpeg_facts as (Hwf & Hg2 & Hs2 & Eopt & Hopt & Eptx & Er0).
  assert (Hr : exists rb, nth_error pegpeg_d 0 = Some rb /\ rb <> RNil) by (vm_compute; eexists; split; [reflexivity|discriminate]).
  destruct Hr as (rb & Hr & Hn).
  destruct (c01_total pegpeg_d pegpeg_d_ptx buf penv _ _ 0 rb Hwf Hr Hn) as (n & [[|p f] evs] & Hp).
  - (* the text is not a grammar *)
    destruct (rejected_shipped buf memo inline st0) as (m & st' & Hm); try assumption.
    { exists n, evs. rewrite Er0. exact Hp. }
    exists m, false, st'. split; [exact Hm|discriminate].
  - (* accepted *)
    destruct (optimize_sound pegpeg_d (nul_table pegpeg_d) (rank_table pegpeg_d (nul_table pegpeg_d)) Hwf Hopt
                pegpeg_d_ptx buf penv Hvb 0 n _ Hp) as (m & evs' & Hp'). cbn [fst] in Hp'. rewrite Eopt in Hp'.
    rewrite <- Eptx in Hp'.
    destruct (c04_execute pegpeg_is pegpeg_is_ptx buf penv (good_grammar_b_ok _ Hg2) Hgb (good_switches_b_ok _ Hs2)
                memo inline m 0 st0 _ _ _ Hslot Hp') as (st' & Hm & Hex).
    exists m, true, st'. split; [exact Hm|]. intros _.
    unfold calls_of_tokens. rewrite Hex, trace_same, Eptx.
    unfold peg_parse in Hp. rewrite <- Er0 in Hp.
    exact (accepted_text_builds nm ak buf penv n p f evs Hp).
Qed.

End Shipped.
