(** The reader's definitions: layout, spellings, the concrete syntax of expressions and files, their text,
    the builder calls they stand for, and the decidable well-formedness.  No proofs and no dependence on the
    generated rule tree: this is what ExtractReader.v extracts, so the correspondence stream still runs when a
    reader proof no longer checks. *)
From PegV Require Import Base.Tac Spec.Syntax Model.Calls.
From PegV Require Model.Front.
Local Open Scope Z_scope.

Definition call := (bcall * list rune)%type.

(** layout: what Spacing consumes.  Blanks, line ends and comments that run to a line end. *)
Definition is_lb (c : rune) : Prop := c = 10 \/ c = 13.

Definition nolb (body : list rune) : Prop := Forall (fun c => c <> 10 /\ c <> 13) body.

Inductive lay : list rune -> Prop :=
| lay_nil : lay []
| lay_sp c s : c = 32 \/ c = 9 \/ c = 10 \/ c = 13 -> lay s -> lay (c :: s)
| lay_hash body e s : nolb body -> is_lb e -> lay s -> lay (35 :: body ++ e :: s)
| lay_slashes body e s : nolb body -> is_lb e -> lay s -> lay (47 :: 47 :: body ++ e :: s).

(** what follows a layout: not the start of another blank or comment *)
Definition stop (rest : list rune) : Prop :=
  match rest with
  | [] => True
  | c :: r => c <> 32 /\ c <> 9 /\ c <> 10 /\ c <> 13 /\ c <> 35 /\ (c = 47 -> match r with 47 :: _ => False | _ => True end)
  end.

(** identifiers: [[a-z_]] then letters, digits, '_' *)
Definition is_istart (c : rune) : bool := ((97 <=? c) && (c <=? 122)) || ((65 <=? c) && (c <=? 90)) || (c =? 95).

Definition is_icont (c : rune) : bool := is_istart c || ((48 <=? c) && (c <=? 57)).

Definition ident_ok (id : list rune) : bool :=
  match id with c :: r => is_istart c && forallb is_icont r | [] => false end.

(** what may follow an identifier's characters *)
Definition not_icont_head (s : list rune) : Prop := forall c r, s = c :: r -> is_icont c = false.

(** action text: braces balance *)
Inductive bal : list rune -> Prop :=
| bal_nil : bal []
| bal_char c s : c <> 123 -> c <> 125 -> bal s -> bal (c :: s)
| bal_nest a s : bal a -> bal s -> bal (123 :: a ++ 125 :: s).

Inductive cchar :=
| KRaw (c : rune)                       (* the character itself *)
| KEsc (c : rune)                       (* backslash, then c *)
| KHex (x : rune) (ds : list rune)      (* backslash 0, x or X, hex digits *)
| KOct (ds : list rune).                (* backslash, one to three octal digits *)

Definition kshow (k : cchar) : list rune :=
  match k with
  | KRaw c => [c]
  | KEsc c => [92; c]
  | KHex x ds => 92 :: 48 :: x :: ds
  | KOct ds => 92 :: ds
  end.

Definition esc_table : list (rune * rune) :=
  [(97, 7); (65, 7); (98, 8); (66, 8); (101, 27); (69, 27); (102, 12); (70, 12); (110, 10); (78, 10); (114, 13); (82, 13);
   (116, 9); (84, 9); (118, 11); (86, 11); (39, 39); (34, 34); (91, 91); (93, 93); (45, 45); (92, 92)].

Definition esc_val (c : rune) : rune :=
  match find (fun cv => fst cv =? c) esc_table with Some cv => snd cv | None => c end.

Definition is_esc (c : rune) : bool := existsb (fun cv => fst cv =? c) esc_table.

Definition is_hex (c : rune) : bool := ((48 <=? c) && (c <=? 57)) || ((97 <=? c) && (c <=? 102)) || ((65 <=? c) && (c <=? 70)).

Definition is_oct (c : rune) : bool := (48 <=? c) && (c <=? 55).

Definition is_oct03 (c : rune) : bool := (48 <=? c) && (c <=? 51).

Definition is_alpha (c : rune) : bool := ((97 <=? c) && (c <=? 122)) || ((65 <=? c) && (c <=? 90)).

Definition kvalid (k : cchar) : bool :=
  match k with
  | KRaw c => negb (c =? 92)
  | KEsc c => is_esc c
  | KHex x ds => ((x =? 120) || (x =? 88)) && match ds with [] => false | _ => forallb is_hex ds end
  | KOct ds =>
      match ds with
      | [a] => is_oct a
      | [a; b] => is_oct a && is_oct b
      | [a; b; c] => is_oct03 a && is_oct b && is_oct c
      | _ => false
      end
  end.

(** what must not follow, for the spelling to be read back as written (the digit runs are greedy) *)
Definition kfollow (k : cchar) (rest : list rune) : bool :=
  match k with
  | KHex _ _ => match rest with c :: _ => negb (is_hex c) | [] => true end
  | KOct [a] =>
      match rest with
      | [] => true
      | c :: r => negb (is_oct c) &&
                  negb ((a =? 48) && ((c =? 120) || (c =? 88)) && match r with d :: _ => is_hex d | [] => false end)
      end
  | KOct [a; b] => if is_oct03 a then match rest with c :: _ => negb (is_oct c) | [] => true end else true
  | _ => true
  end.

Definition kcall (dbl : bool) (k : cchar) : call :=
  match k with
  | KRaw c => if (dbl && is_alpha c)%bool then (CAddDoubleCharacter, [c]) else (CAddCharacter, [c])
  | KEsc c => (CAddCharacter, [esc_val c])
  | KHex _ ds => (CAddHexaCharacter, ds)
  | KOct ds => (CAddOctalCharacter, ds)
  end.

(** digit values *)
Definition hexval (c : rune) : Z := if (48 <=? c) && (c <=? 57) then c - 48 else if (97 <=? c) && (c <=? 102) then c - 87 else c - 55.

Definition octval (c : rune) : Z := c - 48.

Definition kshows (ks : list cchar) : list rune := flat_map kshow ks.

Definition khead (k : cchar) : rune := match kshow k with c :: _ => c | [] => 0 end.

Section Items.
Variable A : Type.
Variable show : A -> list rune.
Variable okb : A -> list rune -> bool.
Definition shows (l : list A) : list rune := flat_map show l.
Fixpoint items_ok (l : list A) (after : list rune) : bool :=
  match l with [] => true | a :: l' => okb a (shows l' ++ after) && items_ok l' after end.
End Items.

(** * literals *)
Definition lit_item_ok (q : rune) (k : cchar) (rest : list rune) : bool :=
  kvalid k && negb (khead k =? q) && kfollow k rest.

Definition chars_ok (q : rune) : list cchar -> list rune -> bool := items_ok cchar kshow (lit_item_ok q).

Definition lit_calls (dbl : bool) (ks : list cchar) : list call :=
  match ks with
  | [] => [(CAddNil, [])]
  | k :: ks' => kcall dbl k :: flat_map (fun k => [kcall dbl k; (CAddSequence, [])]) ks'
  end.

Definition quote_of (dbl : bool) : rune := if dbl then 34 else 39.

(** * classes *)
Inductive citem := IChar (k : cchar) | IRange (lo hi : cchar).

Definition ishow (i : citem) : list rune :=
  match i with IChar k => kshow k | IRange lo hi => kshow lo ++ 45 :: kshow hi end.

Definition ishows (l : list citem) : list rune := flat_map ishow l.

Definition ihead (i : citem) : rune := match i with IChar k => khead k | IRange lo _ => khead lo end.

Definition icalls (dbl : bool) (i : citem) : list call :=
  match i with
  | IChar k => [kcall dbl k]
  | IRange lo hi => [kcall false lo; kcall false hi; (if dbl then CAddDoubleRange else CAddRange, [])]
  end.

Definition head_is (c : rune) (s : list rune) : bool := match s with x :: _ => x =? c | [] => false end.

Definition item_okb (i : citem) (rest : list rune) : bool :=
  match i with
  | IChar k => kvalid k && negb (khead k =? 93) && kfollow k rest && negb (head_is 45 rest)
  | IRange lo hi => kvalid lo && negb (khead lo =? 93) && kfollow lo (45 :: kshow hi ++ rest) && kvalid hi && kfollow hi rest
  end.

Definition citems_ok : list citem -> list rune -> bool := items_ok citem ishow item_okb.

Definition chain_calls (dbl : bool) (l : list citem) : list call :=
  match l with [] => [] | i :: l' => icalls dbl i ++ flat_map (fun i => icalls dbl i ++ [(CAddAlternate, [])]) l' end.

Definition class_calls (dbl neg : bool) (l : list citem) : list call :=
  match l with
  | [] => [(CAddNil, []); (CAddPeekNot, [])]
  | _ => chain_calls dbl l ++ (if neg then [(CAddPeekNot, []); (CAddDot, []); (CAddSequence, [])] else [])
  end.

Definition copen (dbl : bool) : list rune := if dbl then [91; 91] else [91].

Definition cclose (dbl : bool) : list rune := if dbl then [93; 93] else [93].

Definition cguard (dbl : bool) : expr := if dbl then ESeq [EChar 93; EChar 93] else EChar 93.

Definition class_wf (dbl neg : bool) (l : list citem) : bool :=
  match l with
  | [] => negb neg
  | i :: _ => neg || (negb (ihead i =? 94) && (dbl || negb (ihead i =? 91)))
  end.

Definition class_len (dbl neg : bool) (l : list citem) : nat :=
  (length (copen dbl) + (if neg then 1 else 0) + length (ishows l) + length (cclose dbl))%nat.

(** * concrete syntax: every token carries the layout that follows it *)
Inductive cx :=
| XDot (s : list rune)                                        (* .      *)
| XName (id s : list rune)                                    (* name   *)
| XAct (a s : list rune)                                      (* { a }  *)
| XLit (dbl : bool) (ks : list cchar) (s : list rune)         (* 'ks' "ks" *)
| XClass (dbl neg : bool) (items : list citem) (s : list rune)
| XGroup (s1 : list rune) (e : cx) (s2 : list rune)           (* ( e )  *)
| XPush (s1 : list rune) (e : cx) (s2 : list rune)            (* < e >  *)
| XSuf (op : rune) (e : cx) (s : list rune)                   (* e? e* e+ *)
| XPre (op : rune) (s : list rune) (e : cx)                   (* &e !e  *)
| XPredA (op : rune) (s1 a s2 : list rune)                    (* &{a} !{a} *)
| XSeq (l : list cx)                                          (* e1 e2 ... *)
| XAlt (e1 : cx) (l : list (list rune * cx)) (trail : option (list rune))   (* e1 / e2 ... with an optional trailing slash *)
| XEmpty.                                                     (* nothing *)

Fixpoint show (e : cx) : list rune :=
  match e with
  | XDot s => 46 :: s
  | XName id s => id ++ s
  | XAct a s => 123 :: a ++ 125 :: s
  | XLit dbl ks s => quote_of dbl :: kshows ks ++ quote_of dbl :: s
  | XClass dbl neg items s => copen dbl ++ (if neg then [94] else []) ++ ishows items ++ cclose dbl ++ s
  | XGroup s1 e s2 => 40 :: s1 ++ show e ++ 41 :: s2
  | XPush s1 e s2 => 60 :: s1 ++ show e ++ 62 :: s2
  | XSuf op e s => show e ++ op :: s
  | XPre op s e => op :: s ++ show e
  | XPredA op s1 a s2 => op :: s1 ++ 123 :: a ++ 125 :: s2
  | XSeq l => flat_map show l
  | XAlt e1 l trail =>
      show e1 ++ flat_map (fun sx : list rune * cx => 47 :: fst sx ++ show (snd sx)) l ++
      match trail with Some s => 47 :: s | None => [] end
  | XEmpty => []
  end.

(** precedence level: 0 primary, 1 suffix, 2 prefix, 3 sequence, 4 expression *)
Definition lvl (e : cx) : nat :=
  match e with
  | XSuf _ _ _ => 1
  | XPre _ _ _ | XPredA _ _ _ _ => 2
  | XSeq _ => 3
  | XAlt _ _ _ | XEmpty => 4
  | _ => 0
  end%nat.

Definition suf_call (op : rune) : call :=
  if op =? 63 then (CAddQuery, []) else if op =? 42 then (CAddStar, []) else (CAddPlus, []).

Definition pre_call (op : rune) : call := if op =? 38 then (CAddPeekFor, []) else (CAddPeekNot, []).

Definition pred_call (op : rune) (a : list rune) : call := if op =? 38 then (CAddPredicate, a) else (CAddStateChange, a).

(** the builder calls, in order *)
Fixpoint xcalls (e : cx) : list call :=
  match e with
  | XDot _ => [(CAddDot, [])]
  | XName id _ => [(CAddName, id)]
  | XAct a _ => [(CAddAction, a)]
  | XLit dbl ks _ => lit_calls dbl ks
  | XClass dbl neg items _ => class_calls dbl neg items
  | XGroup _ e _ => xcalls e
  | XPush _ e _ => xcalls e ++ [(CAddPush, [])]
  | XSuf op e _ => xcalls e ++ [suf_call op]
  | XPre op _ e => xcalls e ++ [pre_call op]
  | XPredA op _ a _ => [pred_call op a]
  | XSeq l =>
      match l with
      | [] => []
      | x :: l' => xcalls x ++ flat_map (fun y => xcalls y ++ [(CAddSequence, [])]) l'
      end
  | XAlt e1 l trail =>
      xcalls e1 ++ flat_map (fun sx : list rune * cx => xcalls (snd sx) ++ [(CAddAlternate, [])]) l ++
      match trail with Some _ => [(CAddNil, []); (CAddAlternate, [])] | None => [] end
  | XEmpty => [(CAddNil, [])]
  end.

Fixpoint size (e : cx) : nat :=
  match e with
  | XGroup _ e _ | XPush _ e _ | XSuf _ e _ | XPre _ _ e => S (size e)
  | XSeq l => S (fold_right (fun x a => size x + a) 0 l)
  | XAlt e1 l _ => S (size e1 + fold_right (fun sx a => size (snd sx) + a) 0 l)
  | _ => 1
  end%nat.

(** the last token is an identifier with no layout behind it: what follows must not continue it *)
Fixpoint glue (e : cx) : bool :=
  match e with
  | XName _ s => match s with [] => true | _ => false end
  | XPre _ _ e => glue e
  | XSeq l =>
      (fix gl (l : list cx) : bool :=
         match l with [] => false | x :: l' => match l' with [] => glue x | _ => gl l' end end) l
  | XAlt e1 l trail =>
      match trail with
      | Some _ => false
      | None =>
          match l with
          | [] => glue e1
          | _ => (fix gl (l : list (list rune * cx)) : bool :=
                    match l with [] => false | sx :: l' => match l' with [] => glue (snd sx) | _ => gl l' end end) l
          end
      end
  | _ => false
  end.

Definition head_ne (c : rune) (s : list rune) : Prop := forall c' r, s = c' :: r -> c' <> c.

Definition pstart (c : rune) : bool :=
  (c =? 38) || (c =? 33) || (c =? 40) || (c =? 39) || (c =? 34) || (c =? 91) || (c =? 46) || (c =? 123) || (c =? 60) || is_istart c.

(** neighbours in a sequence: an identifier with nothing behind it is not followed by a letter or digit *)
Fixpoint adj (l : list cx) : Prop :=
  match l with
  | x :: ((y :: _) as l') => (glue x = true -> not_icont_head (show y)) /\ adj l'
  | _ => True
  end.

(** the code point a spelling stands for (Model/Front.v's decoders) *)
Definition kval (k : cchar) : Z :=
  match k with
  | KRaw c => c
  | KEsc c => esc_val c
  | KHex _ ds => Front.add_hexa (map hexval ds)
  | KOct ds => Front.add_octal (map octval ds)
  end.

Definition ranges_ascii (items : list citem) : bool :=
  forallb (fun i => match i with IRange lo hi => (kval lo <? 128) && (kval hi <? 128) | IChar _ => true end) items.

Definition is_sufop (op : rune) : Prop := op = 63 \/ op = 42 \/ op = 43.

Definition is_preop (op : rune) : Prop := op = 38 \/ op = 33.

(** well-formed: the precedence levels nest, layouts are layouts, and the spellings read back as written *)
Inductive wf : cx -> Prop :=
| wf_dot s : lay s -> wf (XDot s)
| wf_name id s : ident_ok id = true -> lay s -> wf (XName id s)
| wf_act a s : bal a -> lay s -> wf (XAct a s)
| wf_lit dbl ks s : chars_ok (quote_of dbl) ks [quote_of dbl] = true -> lay s -> wf (XLit dbl ks s)
| wf_class dbl neg items s : class_wf dbl neg items = true -> citems_ok items (cclose dbl) = true ->
    (dbl = true -> ranges_ascii items = true) -> lay s ->
    wf (XClass dbl neg items s)
| wf_group s1 e s2 : lay s1 -> wf e -> lay s2 -> wf (XGroup s1 e s2)
| wf_push s1 e s2 : lay s1 -> wf e -> lay s2 -> wf (XPush s1 e s2)
| wf_suf op e s : is_sufop op -> lvl e = 0%nat -> wf e -> lay s -> wf (XSuf op e s)
| wf_pre op s e : is_preop op -> lay s -> (lvl e <= 1)%nat -> wf e -> head_ne 123 (show e) -> wf (XPre op s e)
| wf_pred op s1 a s2 : is_preop op -> lay s1 -> bal a -> lay s2 -> wf (XPredA op s1 a s2)
| wf_seq l : (2 <= length l)%nat -> Forall (fun x => (lvl x <= 2)%nat /\ wf x) l -> adj l -> wf (XSeq l)
| wf_alt e1 l trail : (lvl e1 <= 3)%nat -> wf e1 ->
    Forall (fun sx : list rune * cx => lay (fst sx) /\ head_ne 47 (fst sx) /\ (lvl (snd sx) <= 3)%nat /\ wf (snd sx)) l ->
    (forall s, trail = Some s -> lay s /\ head_ne 47 s) ->
    (l <> [] \/ trail <> None) -> wf (XAlt e1 l trail)
| wf_empty : wf XEmpty.

Fixpoint glue_list (l : list cx) : bool :=
  match l with [] => false | x :: l' => match l' with [] => glue x | _ => glue_list l' end end.

Fixpoint glue_listp (l : list (list rune * cx)) : bool :=
  match l with [] => false | sx :: l' => match l' with [] => glue (snd sx) | _ => glue_listp l' end end.

Definition showalt (sx : list rune * cx) : list rune := 47 :: fst sx ++ show (snd sx).

(** * the header: comments and runs of blanks before "package" *)
Definition is_sp (c : rune) : bool := (c =? 32) || (c =? 9) || (c =? 10) || (c =? 13).

Inductive hitem :=
| HCmt (slashes : bool) (body : list rune) (e : list rune)      (* # or //, text, line end *)
| HSp (run : list rune).                                         (* blanks and line ends *)

Definition hshow (h : hitem) : list rune :=
  match h with
  | HCmt sl body e => (if sl then [47; 47] else [35]) ++ body ++ e
  | HSp run => run
  end.

Definition hcall (h : hitem) : call :=
  match h with HCmt _ body _ => (CAddComment, body) | HSp run => (CAddSpace, run) end.

Definition is_eol (e : list rune) : Prop := e = [10] \/ e = [13] \/ e = [13; 10].

(** an item, given the text behind it: a run of blanks is maximal; "\r" alone is not followed by "\n" *)
Definition hitem_ok (h : hitem) (tl : list rune) : Prop :=
  match h with
  | HCmt _ body e => nolb body /\ is_eol e /\ (e = [13] -> head_ne 10 tl)
  | HSp run => run <> [] /\ forallb is_sp run = true /\ (forall c r, tl = c :: r -> is_sp c = false)
  end.

Fixpoint header_ok (l : list hitem) (tl : list rune) : Prop :=
  match l with
  | [] => True
  | h :: l' => hitem_ok h (flat_map hshow l' ++ tl) /\ header_ok l' tl
  end.

(** * imports *)
Definition is_pathc (c : rune) : bool :=
  ((48 <=? c) && (c <=? 57)) || ((97 <=? c) && (c <=? 122)) || ((65 <=? c) && (c <=? 90)) || (c =? 95) || (c =? 47) || (c =? 46) || (c =? 45).

Record iname := { in_alias : option (list rune * list rune); in_path : list rune }.

Definition inshow (n : iname) : list rune :=
  (match in_alias n with Some (id, s) => id ++ s | None => [] end) ++ 34 :: in_path n ++ [34].

Definition incalls (n : iname) : list call :=
  (match in_alias n with Some (id, _) => [(CAddImportAlias, id)] | None => [] end) ++ [(CAddImport, in_path n)].

Definition iname_ok (n : iname) : Prop :=
  in_path n <> [] /\ forallb is_pathc (in_path n) = true /\
  match in_alias n with Some (id, s) => ident_ok id = true /\ lay s | None => True end.

Inductive imp :=
| ISingle (s1 : list rune) (n : iname) (s2 : list rune)
| IMulti (s1 s2 : list rune) (items : list (iname * list rune)) (s3 : list rune).

Definition kw_import : list rune := [105; 109; 112; 111; 114; 116].

Definition mitem_show (ns : iname * list rune) : list rune := inshow (fst ns) ++ 10 :: snd ns.

Definition impshow (i : imp) : list rune :=
  match i with
  | ISingle s1 n s2 => kw_import ++ s1 ++ inshow n ++ s2
  | IMulti s1 s2 items s3 => kw_import ++ s1 ++ 40 :: s2 ++ flat_map mitem_show items ++ 41 :: s3
  end.

Definition impcalls (i : imp) : list call :=
  match i with
  | ISingle _ n _ => incalls n
  | IMulti _ _ items _ => flat_map (fun ns => incalls (fst ns)) items
  end.

Definition imp_ok (i : imp) : Prop :=
  match i with
  | ISingle s1 n s2 => lay s1 /\ iname_ok n /\ lay s2
  | IMulti s1 s2 items s3 => lay s1 /\ lay s2 /\ lay s3 /\ Forall (fun ns : iname * list rune => iname_ok (fst ns) /\ lay (snd ns)) items
  end.

(** * rules *)
Record cdef := { d_name : list rune; d_s1 : list rune; d_uni : bool; d_s2 : list rune; d_body : cx }.

Definition arrow_text (uni : bool) : list rune := if uni then [8592] else [60; 45].

Definition dshow (d : cdef) : list rune := d_name d ++ d_s1 d ++ arrow_text (d_uni d) ++ d_s2 d ++ show (d_body d).

Definition dcalls (d : cdef) : list call := [(CAddRule, d_name d)] ++ xcalls (d_body d) ++ [(CAddExpression, [])].

Definition def_ok (d : cdef) : Prop := ident_ok (d_name d) = true /\ lay (d_s1 d) /\ lay (d_s2 d) /\ wf (d_body d).

(** what may follow a rule: the end of the text, or the next rule's name and arrow *)
Definition defstart (tl : list rune) : Prop :=
  tl = [] \/ exists id s1 uni s2 rest, tl = id ++ s1 ++ arrow_text uni ++ s2 ++ rest /\ ident_ok id = true /\ lay s1 /\ lay s2 /\ stop rest.

(** the rules of a file: each is followed by the next; a body that ends in a bare name is the last *)
Fixpoint defs_ok (l : list cdef) : Prop :=
  match l with
  | [] => True
  | d :: l' => def_ok d /\ (l' <> [] -> glue (d_body d) = false) /\ defs_ok l'
  end.

(** * the file *)
Definition kw_package : list rune := [112; 97; 99; 107; 97; 103; 101].

Definition kw_type : list rune := [116; 121; 112; 101].

Definition kw_Peg : list rune := [80; 101; 103].

Record cfile := {
  f_header : list hitem;
  f_s_pkg : list rune; f_pkg : list rune; f_s1 : list rune;
  f_imports : list imp;
  f_s_type : list rune; f_peg : list rune; f_s2 : list rune;
  f_s3 : list rune; f_state : list rune; f_s4 : list rune;
  f_defs : list cdef }.

Definition fshow (f : cfile) : list rune :=
  flat_map hshow (f_header f) ++ kw_package ++ f_s_pkg f ++ f_pkg f ++ f_s1 f ++ flat_map impshow (f_imports f) ++
  kw_type ++ f_s_type f ++ f_peg f ++ f_s2 f ++ kw_Peg ++ f_s3 f ++ 123 :: f_state f ++ 125 :: f_s4 f ++ flat_map dshow (f_defs f).

Definition fcalls (f : cfile) : list call :=
  map hcall (f_header f) ++ [(CAddPackage, f_pkg f)] ++ flat_map impcalls (f_imports f) ++
  [(CAddPeg, f_peg f)] ++ [(CAddState, f_state f)] ++ flat_map dcalls (f_defs f).

Definition file_ok (f : cfile) : Prop :=
  header_ok (f_header f) [112] /\
  lay (f_s_pkg f) /\ f_s_pkg f <> [] /\ ident_ok (f_pkg f) = true /\ lay (f_s1 f) /\ f_s1 f <> [] /\
  Forall imp_ok (f_imports f) /\
  lay (f_s_type f) /\ f_s_type f <> [] /\ ident_ok (f_peg f) = true /\ lay (f_s2 f) /\ f_s2 f <> [] /\
  lay (f_s3 f) /\ bal (f_state f) /\ lay (f_s4 f) /\
  f_defs f <> [] /\ defs_ok (f_defs f).

(** * malformed text (Reader/Reject.v) *)
(** a character that starts nothing: not a blank, not a comment, no operator, no bracket that opens, no quote, no
    letter / digit / underscore, not an arrow *)
Definition junk_head (c : rune) : bool :=
  negb ((c =? 32) || (c =? 9) || (c =? 10) || (c =? 13) || (c =? 35) || (c =? 47) || (c =? 8592) ||
        (c =? 63) || (c =? 42) || (c =? 43) || pstart c || is_icont c).

(** the part of a file before its rules: everything up to and including  Peg { state }  is read, whatever follows *)
Definition head_ok (f : cfile) : Prop :=
  header_ok (f_header f) [112] /\ lay (f_s_pkg f) /\ f_s_pkg f <> [] /\ ident_ok (f_pkg f) = true /\ lay (f_s1 f) /\ f_s1 f <> [] /\
  Forall imp_ok (f_imports f) /\ lay (f_s_type f) /\ f_s_type f <> [] /\ ident_ok (f_peg f) = true /\ lay (f_s2 f) /\ f_s2 f <> [] /\
  lay (f_s3 f) /\ bal (f_state f) /\ lay (f_s4 f).
Definition head_text (f : cfile) : list rune :=
  flat_map hshow (f_header f) ++ kw_package ++ f_s_pkg f ++ f_pkg f ++ f_s1 f ++ flat_map impshow (f_imports f) ++
  kw_type ++ f_s_type f ++ f_peg f ++ f_s2 f ++ kw_Peg ++ f_s3 f ++ 123 :: f_state f ++ 125 :: f_s4 f.

(** * layout *)
Fixpoint layb_c (incmt : bool) (s : list rune) : bool :=
  match s with
  | [] => negb incmt
  | c :: r =>
      if incmt then (if (c =? 10) || (c =? 13) then layb_c false r else layb_c true r)
      else if (c =? 32) || (c =? 9) || (c =? 10) || (c =? 13) then layb_c false r
      else if c =? 35 then layb_c true r
      else if c =? 47 then match r with d :: r' => if d =? 47 then layb_c true r' else false | [] => false end
      else false
  end.

Definition layb (s : list rune) : bool := layb_c false s.

(** * balanced braces *)
Fixpoint balb (d : nat) (s : list rune) : bool :=
  match s with
  | [] => Nat.eqb d 0
  | c :: r => if c =? 123 then balb (S d) r
              else if c =? 125 then match d with O => false | S d' => balb d' r end
              else balb d r
  end.

(** * expressions *)
Definition head_icont (s : list rune) : bool := match s with c :: _ => is_icont c | [] => false end.

Fixpoint adjb (l : list cx) : bool :=
  match l with
  | x :: ((y :: _) as l') => implb (glue x) (negb (head_icont (show y))) && adjb l'
  | _ => true
  end.

Definition sufopb (op : rune) : bool := (op =? 63) || (op =? 42) || (op =? 43).

Definition preopb (op : rune) : bool := (op =? 38) || (op =? 33).

Fixpoint wfb (e : cx) : bool :=
  match e with
  | XDot s => layb s
  | XName id s => ident_ok id && layb s
  | XAct a s => balb 0 a && layb s
  | XLit dbl ks s => chars_ok (quote_of dbl) ks [quote_of dbl] && layb s
  | XClass dbl neg items s => class_wf dbl neg items && citems_ok items (cclose dbl) && (negb dbl || ranges_ascii items) && layb s
  | XGroup s1 e s2 | XPush s1 e s2 => layb s1 && wfb e && layb s2
  | XSuf op e s => sufopb op && Nat.eqb (lvl e) 0 && wfb e && layb s
  | XPre op s e => preopb op && layb s && Nat.leb (lvl e) 1 && wfb e && negb (head_is 123 (show e))
  | XPredA op s1 a s2 => preopb op && layb s1 && balb 0 a && layb s2
  | XSeq l => Nat.leb 2 (length l) && forallb (fun x => Nat.leb (lvl x) 2 && wfb x) l && adjb l
  | XAlt e1 l trail =>
      Nat.leb (lvl e1) 3 && wfb e1 &&
      forallb (fun sx : list rune * cx => layb (fst sx) && negb (head_is 47 (fst sx)) && Nat.leb (lvl (snd sx)) 3 && wfb (snd sx)) l &&
      match trail with Some s => layb s && negb (head_is 47 s) | None => true end &&
      (match l with [] => false | _ => true end || match trail with Some _ => true | None => false end)
  | XEmpty => true
  end.

Definition nolbb (body : list rune) : bool := forallb (fun c => negb ((c =? 10) || (c =? 13))) body.

Definition eol_kind (e : list rune) : nat :=
  match e with
  | [c] => if c =? 10 then 1%nat else if c =? 13 then 2%nat else 0%nat
  | [c; d] => if (c =? 13) && (d =? 10) then 3%nat else 0%nat
  | _ => 0%nat
  end.

Definition hitem_okb (h : hitem) (tl : list rune) : bool :=
  match h with
  | HCmt _ body e => nolbb body && negb (Nat.eqb (eol_kind e) 0) && (if Nat.eqb (eol_kind e) 2 then negb (head_is 10 tl) else true)
  | HSp run => match run with [] => false | _ => true end && forallb is_sp run && negb (match tl with c :: _ => is_sp c | [] => false end)
  end.

Fixpoint header_okb (l : list hitem) (tl : list rune) : bool :=
  match l with [] => true | h :: l' => hitem_okb h (flat_map hshow l' ++ tl) && header_okb l' tl end.

Definition iname_okb (n : iname) : bool :=
  match in_path n with [] => false | _ => true end && forallb is_pathc (in_path n) &&
  match in_alias n with Some (id, s) => ident_ok id && layb s | None => true end.

Definition imp_okb (i : imp) : bool :=
  match i with
  | ISingle s1 n s2 => layb s1 && iname_okb n && layb s2
  | IMulti s1 s2 items s3 => layb s1 && layb s2 && layb s3 && forallb (fun ns : iname * list rune => iname_okb (fst ns) && layb (snd ns)) items
  end.

Definition def_okb (d : cdef) : bool := ident_ok (d_name d) && layb (d_s1 d) && layb (d_s2 d) && wfb (d_body d).

Fixpoint defs_okb (l : list cdef) : bool :=
  match l with
  | [] => true
  | d :: l' => def_okb d && (match l' with [] => true | _ => negb (glue (d_body d)) end) && defs_okb l'
  end.

Definition nonempty {A} (l : list A) : bool := match l with [] => false | _ => true end.

Definition file_okb (f : cfile) : bool :=
  header_okb (f_header f) [112] &&
  layb (f_s_pkg f) && nonempty (f_s_pkg f) && ident_ok (f_pkg f) && layb (f_s1 f) && nonempty (f_s1 f) &&
  forallb imp_okb (f_imports f) &&
  layb (f_s_type f) && nonempty (f_s_type f) && ident_ok (f_peg f) && layb (f_s2 f) && nonempty (f_s2 f) &&
  layb (f_s3 f) && balb 0 (f_state f) && layb (f_s4 f) && nonempty (f_defs f) && defs_okb (f_defs f).
