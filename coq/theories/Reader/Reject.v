(** Rejection: text that is a well-formed file followed by something that is neither layout nor the start of
    anything is refused by peg.peg's own rule tree.  (A rule ends only before another rule or at the end of the
    text: Definition <- ... &(Identifier LeftArrow / !.).) *)
From PegV Require Import Base.Tac Base.ListX Spec.Syntax Spec.Peg Proofs.PegRel Model.Calls Generated.PegPeg
  Reader.Base Reader.Lex Reader.Chars Reader.Lits Reader.Expr Reader.File Spec.WF Proofs.Forest Proofs.Total.
Local Open Scope Z_scope.

Section Reject.
Variable buf : list rune.
Variable penv : nat -> nat -> bool.
Notation At := (At buf).
Notation C := (C buf penv).
Notation ko := (ko pegpeg_d pegpeg_d_ptx buf penv).

Lemma junk_unpack c : junk_head c = true ->
  c <> 32 /\ c <> 9 /\ c <> 10 /\ c <> 13 /\ c <> 35 /\ c <> 47 /\ c <> 8592 /\ c <> 63 /\ c <> 42 /\ c <> 43 /\
  pstart c = false /\ is_icont c = false /\ is_istart c = false /\ c <> 60.
Proof.
  unfold junk_head. intros H. apply negb_true_iff in H.
  repeat (apply orb_false_iff in H; destruct H as [H ?]).
  assert (Hi : is_istart c = false) by (unfold is_icont in *; destruct (is_istart c); [discriminate|reflexivity]).
  assert (H60 : c <> 60) by (intros ->; discriminate).
  repeat split; try assumption; lia.
Qed.

Lemma junk_facts q c m : At q (c :: m) -> junk_head c = true ->
  fol buf penv q (c :: m) /\ ko (EName pr_Prefix) q /\ ko (EName pr_Slash) q /\ head_ne 47 (c :: m) /\ stop (c :: m) /\
  not_icont_head (c :: m) /\ ko (EAnd (EAlt [ESeq [EName pr_Identifier; EName pr_LeftArrow]; ENot EDot])) q.
Proof.
  intros Hat Hj. destruct (junk_unpack c Hj) as (N1&N2&N3&N4&N5&N6&N7&N8&N9&N10&Hp&Hic&His&N60).
  assert (Hf : fol buf penv q (c :: m)) by (apply fol_char; try assumption; intros E; congruence).
  split; [exact Hf|].
  split; [eapply prefix_ko; [exact Hat|intros ? ? E; inv E; exact Hp]|].
  split; [eapply tok_ko; [lookup|exact Hat|intros ? ? E; inv E; assumption]|].
  split; [intros ? ? E; inv E; assumption|].
  split; [exact (fol_stop _ _ _ _ Hf)|].
  split; [intros ? ? E; inv E; exact Hic|].
  assert (K : ko (EName pr_Identifier) q) by (eapply identifier_ko; [exact Hat|intros ? ? E; inv E; exact His]).
  korun.
Qed.

(** What may stand behind the last rule of a text without being read as part of it, and is not the end of the text:
    it cannot continue the rule's expression, and the look-ahead that ends a rule fails on it. *)
Definition Ends (rest : list rune) : Prop :=
  stop rest /\ forall q, At q rest ->
    fol buf penv q rest /\ ko (EName pr_Prefix) q /\ ko (EName pr_Slash) q /\ head_ne 47 rest /\
    not_icont_head rest /\ ko (EAnd (EAlt [ESeq [EName pr_Identifier; EName pr_LeftArrow]; ENot EDot])) q.

Lemma junk_ends c m : junk_head c = true -> Ends (c :: m).
Proof.
  intros Hj. split.
  - destruct (junk_unpack c Hj) as (N1&N2&N3&N4&N5&N6&_). cbn [stop]. repeat split; try assumption. intros E; congruence.
  - intros q Hq. destruct (junk_facts _ _ _ Hq Hj) as (F & Kp & Ks & H47 & _ & Hnic & Kand). auto 10.
Qed.

(** a rule followed by such a text is not a rule *)
Lemma def_ko d rest p : def_ok d -> Ends rest -> At p (dshow d ++ rest) -> ko (EName pr_Definition) p.
Proof.
  intros (Hid & Hs1 & Hs2 & Hw) Hj Hat. destruct d as [id s1 uni s2 e]. unfold dshow in *. cbn [d_name d_s1 d_uni d_s2 d_body] in *.
  rewrite <- !app_assoc in Hat.
  assert (Hn : not_icont_head (s1 ++ arrow_text uni ++ s2 ++ show e ++ rest)).
  { destruct s1 as [|c0 s']; [apply arrow_nic|apply layhead_nic; [exact Hs1|discriminate]]. }
  pose proof (fun t => identifier_ok buf penv id s1 _ p t Hid Hs1 (arrow_stop uni _) Hn Hat) as Hident.
  atn Hat as A1. atn A1 as A2. atn A2 as A3. atn A3 as A4. atn A4 as A5.
  destruct Hj as [Hstl Hj]. destruct (Hj _ A5) as (F & Kp & Ks & H47 & Hnic & Kand).
  assert (Hst : stop (show e ++ rest)).
  { destruct (show_start4 e Hw) as [E|(c1 & m1 & E & Hp & _)]; rewrite E; cbn [app]; [exact Hstl|apply pstart_stop; exact Hp]. }
  pose proof (fun t => arrow_parse buf penv uni s2 _ _ t Hs2 Hst A2) as Harrow.
  pose proof (fun t => expression_ok buf penv e Hw rest _ t A4 F (fun _ => Hnic) Kp Ks H47) as He.
  ko_into_rule. apply ko_seq.
  pose proof (Hident (0%nat, 0%nat)) as H1.
  eapply (kos_tail_C _ _ _ _ _ _ _ _ _ H1).
  eapply (kos_tail_C _ _ _ _ _ _ _ (0%nat, 0%nat)); [eapply C_act; [lookup|notptx]|].
  eapply (kos_tail_C _ _ _ _ _ _ _ _ _ (Harrow (0%nat, 0%nat))).
  destruct (He (0%nat, 0%nat)) as [t1 He1].
  eapply (kos_tail_C _ _ _ _ _ _ _ _ _ He1).
  eapply (kos_tail_C _ _ _ _ _ _ _ (0%nat, 0%nat)); [eapply C_act; [lookup|notptx]|].
  apply kos_head. exact Kand.
Qed.

Notation ok := (ok pegpeg_d pegpeg_d_ptx buf penv).
Notation kwe l := (ESeq (map EChar l)).
Notation kos := (kos pegpeg_d pegpeg_d_ptx buf penv).

Lemma defs_stop_junk l rest : defs_ok l -> Ends rest -> stop (flat_map dshow l ++ rest).
Proof.
  intros Hl Hj. destruct l as [|d l]; [exact (proj1 Hj)|]. cbn [defs_ok flat_map] in *. destruct Hl as ((Hid & _) & _).
  unfold dshow. rewrite <- !app_assoc. apply ident_stop. exact Hid.
Qed.

(** the rules of a file followed by such a character: the repetition stops before the last of them *)
Lemma defs_junk rest : Ends rest -> forall l p, defs_ok l -> l <> [] -> At p (flat_map dshow l ++ rest) ->
  exists p' f x s0, ok (EStar (EName pr_Definition)) p p' f /\ At p' (x :: s0).
Proof.
  intros Hj. induction l as [|d l IH]; intros p Hok Hne Hat; [congruence|]. cbn [flat_map defs_ok] in *. destruct Hok as (Hd & Hg & Hl).
  rewrite <- app_assoc in Hat.
  destruct l as [|d' l'].
  - (* the last rule is not followed by a rule or the end: it is not read *)
    cbn [flat_map app] in Hat. pose proof (def_ko d rest p Hd Hj Hat) as K.
    destruct Hd as (Hid & _). destruct (ident_head _ Hid) as (x & r & E & _).
    exists p, [], x, (r ++ d_s1 d ++ arrow_text (d_uni d) ++ d_s2 d ++ show (d_body d) ++ rest).
    split; [apply ok_star_nil; exact K|]. unfold dshow in Hat. rewrite <- !app_assoc in Hat. rewrite E in Hat. exact Hat.
  - assert (Hds : defstart (flat_map dshow (d' :: l') ++ rest)).
    { right. cbn [defs_ok] in Hl. destruct Hl as ((Hid & Hs1 & Hs2 & Hw) & _ & Hl').
      exists (d_name d'), (d_s1 d'), (d_uni d'), (d_s2 d'), (show (d_body d') ++ flat_map dshow l' ++ rest).
      split; [cbn [flat_map]; unfold dshow; rewrite <- !app_assoc; reflexivity|]. repeat split; try assumption.
      destruct (show_start4 (d_body d') Hw) as [E|(c1 & m1 & E & Hp & _)]; rewrite E; cbn [app];
        [apply defs_stop_junk; assumption|apply pstart_stop; exact Hp]. }
    assert (Hg' : glue (d_body d) = true -> not_icont_head (flat_map dshow (d' :: l') ++ rest)).
    { intros E. rewrite Hg in E; [discriminate|discriminate]. }
    destruct (def_parse buf penv d _ p (0%nat, 0%nat) Hd Hds Hg' Hat) as [t1 H1]. destruct (C_ok _ _ _ _ _ _ _ _ H1) as [f1 O1].
    atn Hat as A1.
    destruct (IH _ Hl ltac:(discriminate) A1) as (p' & f2 & x & s0 & O2 & A2).
    exists p', (f1 ++ f2), x, s0. split; [eapply ok_star_cons; eassumption|exact A2].
Qed.

Lemma seg_defs_ko d defs rest p : defs_ok (d :: defs) -> Ends rest -> At p (flat_map dshow (d :: defs) ++ rest) ->
  kos [EPlus (EName pr_Definition); EName pr_EndOfFile] p.
Proof.
  intros Hok Hj Hat. destruct defs as [|d' l'].
  - cbn [flat_map defs_ok app] in *. destruct Hok as (Hd & _). rewrite app_nil_r in Hat.
    apply kos_head. apply ko_plus. exact (def_ko d rest p Hd Hj Hat).
  - pose proof Hok as Hok0. cbn [defs_ok] in Hok. destruct Hok as (Hd & Hg & Hl).
    change (flat_map dshow (d :: d' :: l')) with (dshow d ++ flat_map dshow (d' :: l')) in Hat. rewrite <- app_assoc in Hat.
    assert (Hds : defstart (flat_map dshow (d' :: l') ++ rest)).
    { right. cbn [defs_ok] in Hl. destruct Hl as ((Hid & Hs1 & Hs2 & Hw) & _ & Hl').
      exists (d_name d'), (d_s1 d'), (d_uni d'), (d_s2 d'), (show (d_body d') ++ flat_map dshow l' ++ rest).
      split; [cbn [flat_map]; unfold dshow; rewrite <- !app_assoc; reflexivity|]. repeat split; try assumption.
      destruct (show_start4 (d_body d') Hw) as [E|(c1 & m1 & E & Hp & _)]; rewrite E; cbn [app];
        [apply defs_stop_junk; assumption|apply pstart_stop; exact Hp]. }
    assert (Hg' : glue (d_body d) = true -> not_icont_head (flat_map dshow (d' :: l') ++ rest)).
    { intros E. rewrite Hg in E; [discriminate|discriminate]. }
    destruct (def_parse buf penv d _ p (0%nat, 0%nat) Hd Hds Hg' Hat) as [t1 H1]. destruct (C_ok _ _ _ _ _ _ _ _ H1) as [f1 O1].
    atn Hat as A1.
    destruct (defs_junk rest Hj (d' :: l') _ Hl ltac:(discriminate) A1) as (p' & f2 & x & s0 & O2 & A2).
    eapply kos_tail; [eapply ok_plus; eassumption|]. apply kos_head. korun.
Qed.

Lemma file_ok_head f : file_ok f -> head_ok f.
Proof. intros (Hh & Hsp & Hspn & Hpk & Hs1 & Hs1n & Himp & Hst & Hstn & Hpeg & Hs2 & Hs2n & Hs3 & Hbal & Hs4 & _). repeat split; assumption. Qed.
Lemma fshow_head f : fshow f = head_text f ++ flat_map dshow (f_defs f).
Proof. unfold fshow, head_text. repeat (rewrite <- ?app_assoc, <- ?app_comm_cons; cbn [app]). reflexivity. Qed.

(** if the rules and the end of the file are not found behind the head, the text is refused *)
Lemma head_then f J : head_ok f -> stop J -> buf = head_text f ++ J ->
  (forall q, At q J -> kos [EPlus (EName pr_Definition); EName pr_EndOfFile] q) -> ko (EName pr_Grammar) 0.
Proof.
  intros (Hh & Hsp & Hspn & Hpk & Hs1 & Hs1n & Himp & Hst & Hstn & Hpeg & Hs2 & Hs2n & Hs3 & Hbal & Hs4) HJ Ebuf K.
  destruct f as [hdr spkg pkg s1 imps stype peg s2 s3 state s4 defs]. unfold head_text in *.
  cbn [f_header f_s_pkg f_pkg f_s1 f_imports f_s_type f_peg f_s2 f_s3 f_state f_s4 f_defs] in *.
  assert (Hat : At 0 (flat_map hshow hdr ++ kw_package ++ spkg ++ pkg ++ s1 ++ flat_map impshow imps ++
                      kw_type ++ stype ++ peg ++ s2 ++ kw_Peg ++ s3 ++ 123 :: state ++ 125 :: s4 ++ J)).
  { replace (flat_map hshow hdr ++ kw_package ++ spkg ++ pkg ++ s1 ++ flat_map impshow imps ++
             kw_type ++ stype ++ peg ++ s2 ++ kw_Peg ++ s3 ++ 123 :: state ++ 125 :: s4 ++ J) with buf; [apply At_start|].
    rewrite Ebuf. repeat (rewrite <- ?app_assoc, <- ?app_comm_cons; cbn [app]). reflexivity. }
  let b := eval vm_compute in (nth_error pegpeg_d pr_Grammar) in
  lazymatch b with
  | Some (RBody (ESeq [_; _; _; _; ?a1; _; _; _; _; ?a2; _; _; _; ?a3; _; _])) => pose (ea1 := a1); pose (ea2 := a2); pose (ea3 := a3)
  end.
  assert (Hea1 : forall q t0, C ea1 q q [(CAddPackage, sub buf t0)] t0 t0) by (intros; subst ea1; cgo).
  assert (Hea2 : forall q t0, C ea2 q q [(CAddPeg, sub buf t0)] t0 t0) by (intros; subst ea2; cgo).
  assert (Hea3 : forall q t0, C ea3 q q [(CAddState, sub buf t0)] t0 t0) by (intros; subst ea3; cgo).
  (* 1: header, package *)
  assert (Hst1 : stop (flat_map impshow imps ++ kw_type ++ stype ++ peg ++ s2 ++ kw_Peg ++ s3 ++ 123 :: state ++ 125 :: s4 ++ J)).
  { destruct imps as [|i' l']; cbn [flat_map app]; [unfold kw_type; cbn [app]; apply stop_char; lia|].
    destruct i'; cbn [impshow]; unfold kw_import; cbn [app]; apply stop_char; lia. }
  destruct (seg_head buf penv hdr spkg pkg s1 _ ea1 0%nat (0%nat, 0%nat) Hh Hsp Hspn Hpk Hs1 Hs1n Hst1 Hea1 Hat) as [t1 S1].
  set (q1 := (0 + length (flat_map hshow hdr) + 7 + length spkg + length pkg + length s1)%nat) in *.
  assert (A1 : At q1 (flat_map impshow imps ++ kw_type ++ stype ++ peg ++ s2 ++ kw_Peg ++ s3 ++ 123 :: state ++ 125 :: s4 ++ J)).
  { subst q1. atn Hat as X0. unfold kw_package in X0. cbn [app] in X0. at1 X0 as X1. at1 X1 as X2. at1 X2 as X3. at1 X3 as X4. at1 X4 as X5. at1 X5 as X6. at1 X6 as X7.
    atn X7 as X8. atn X8 as X9. atn X9 as X10.
    replace (0 + length (flat_map hshow hdr) + 7 + length spkg + length pkg + length s1)%nat
      with (S (S (S (S (S (S (S (0 + length (flat_map hshow hdr)))))))) + length spkg + length pkg + length s1)%nat by lia. exact X10. }
  (* 2: imports *)
  atn A1 as A2.
  assert (Kimp : ko (EName pr_Import) (q1 + length (flat_map impshow imps))%nat) by (unfold kw_type in A2; cbn [app] in A2; korun).
  assert (Hst2 : stop (kw_type ++ stype ++ peg ++ s2 ++ kw_Peg ++ s3 ++ 123 :: state ++ 125 :: s4 ++ J)) by (unfold kw_type; cbn [app]; apply stop_char; lia).
  destruct (imports_star buf penv imps _ q1 t1 Himp Hst2 Kimp A1) as [t2 S2].
  (* 3: type *)
  assert (Hst3 : stop (kw_Peg ++ s3 ++ 123 :: state ++ 125 :: s4 ++ J)) by (unfold kw_Peg; cbn [app]; apply stop_char; lia).
  destruct (seg_type buf penv stype peg s2 _ ea2 _ t2 Hst Hstn Hpeg Hs2 Hs2n Hst3 Hea2 A2) as [t3 S3].
  set (q3 := (q1 + length (flat_map impshow imps) + 4 + length stype + length peg + length s2)%nat) in *.
  assert (A3 : At q3 (kw_Peg ++ s3 ++ 123 :: state ++ 125 :: s4 ++ J)).
  { subst q3. unfold kw_type in A2. cbn [app] in A2. at1 A2 as X1. at1 X1 as X2. at1 X2 as X3. at1 X3 as X4. atn X4 as X5. atn X5 as X6. atn X6 as X7.
    replace (q1 + length (flat_map impshow imps) + 4 + length stype + length peg + length s2)%nat
      with (S (S (S (S (q1 + length (flat_map impshow imps))))) + length stype + length peg + length s2)%nat by lia. exact X7. }
  (* 4: Peg { state } *)
  destruct (seg_state buf penv s3 state s4 _ ea3 _ t3 Hs3 Hbal Hs4 HJ Hea3 A3) as [t4 S4].
  set (q4 := (q3 + 3 + length s3 + 2 + length state + length s4)%nat) in *.
  assert (A4 : At q4 J).
  { subst q4. unfold kw_Peg in A3. cbn [app] in A3. at1 A3 as X1. at1 X1 as X2. at1 X2 as X3. atn X3 as X4. at1 X4 as X5. atn X5 as X6. at1 X6 as X7. atn X7 as X8.
    replace (q3 + 3 + length s3 + 2 + length state + length s4)%nat
      with (S (S (S (S (S q3)) + length s3) + length state) + length s4)%nat by lia. exact X8. }
  (* 5: what follows is not the rules and the end of the file *)
  pose proof (K q4 A4) as K5.
  ko_into_rule. apply ko_seq.
  assert (Hall : kos (([EName pr_Header; kwe kw_package; EName pr_MustSpacing; EName pr_Identifier; ea1] ++ [EStar (EName pr_Import)] ++
                  [kwe kw_type; EName pr_MustSpacing; EName pr_Identifier; ea2] ++ [kwe kw_Peg; EName pr_Spacing; EName pr_Action; ea3]) ++
                  [EPlus (EName pr_Definition); EName pr_EndOfFile]) 0).
  { eapply kos_app_Cs; [|exact K5].
    eapply Cs_app; [exact S1|]. eapply Cs_app; [eapply Cs_cons; [exact S2|apply Cs_nil]|].
    eapply Cs_app; [exact S3|exact S4]. }
  subst ea1 ea2 ea3. cbn [app map kw_package kw_type kw_Peg] in Hall. exact Hall.
Qed.

(** A well-formed file followed by a text that cannot continue its last rule, on which the look-ahead that ends a rule
    fails, is refused: the rule Grammar fails on it. *)
Theorem grammar_rejects_trailing_gen f rest : file_ok f -> Ends rest -> buf = fshow f ++ rest -> ko (EName pr_Grammar) 0.
Proof.
  intros Hf Hj Ebuf. pose proof Hf as (_ & _ & _ & _ & _ & _ & _ & _ & _ & _ & _ & _ & _ & _ & _ & Hdn & Hdefs).
  destruct (f_defs f) as [|d defs] eqn:Ed; [congruence|].
  apply (head_then f (flat_map dshow (d :: defs) ++ rest) (file_ok_head f Hf)).
  - apply defs_stop_junk; assumption.
  - rewrite Ebuf, fshow_head, Ed, <- app_assoc. reflexivity.
  - intros q Hq. exact (seg_defs_ko d defs rest q Hdefs Hj Hq).
Qed.
(** ... in particular one that begins with a character that starts nothing *)
Theorem grammar_rejects_trailing f c m : file_ok f -> junk_head c = true -> buf = fshow f ++ c :: m ->
  ko (EName pr_Grammar) 0.
Proof. intros Hf Hj Ebuf. exact (grammar_rejects_trailing_gen f (c :: m) Hf (junk_ends c m Hj) Ebuf). Qed.

(** A text with no rule behind  type T Peg { .. }  is refused: whatever follows the head, if it does not start with a
    letter or an underscore there is no rule to read (this includes the text that stops after the head). *)
Theorem grammar_rejects_no_rules f J : head_ok f -> stop J -> (forall c r, J = c :: r -> is_istart c = false) ->
  buf = head_text f ++ J -> ko (EName pr_Grammar) 0.
Proof.
  intros Hf HJ Hn Ebuf. apply (head_then f J Hf HJ Ebuf). intros q Hq.
  assert (K : ko (EName pr_Identifier) q) by (eapply identifier_ko; [exact Hq|exact Hn]).
  apply kos_head. apply ko_plus. korun.
Qed.

(** ** a quote that is never closed
    However far the characters behind an opening quote are read, a sequence that must then find the closing quote
    fails when there is none in the rest of the text.  Every parsing expression of the rule tree has a result
    (Proofs/Total.v), so the expressions before the quote either fail or end somewhere further right. *)
Lemma pegpeg_wf : wf_b pegpeg_d (nul_table pegpeg_d) (rank_table pegpeg_d (nul_table pegpeg_d)) = true.
Proof. vm_compute. reflexivity. Qed.

Lemma kos_until x post : forall pre p, (p <= length buf)%nat ->
  forallb (local_ok pegpeg_d (nul_table pegpeg_d)) pre = true ->
  (forall p', (p <= p')%nat -> ko x p') -> kos (pre ++ x :: post) p.
Proof.
  induction pre as [|e pre IH]; intros p Hp Hl Hno; cbn [app].
  - apply kos_head. apply Hno. lia.
  - cbn [forallb] in Hl. apply andb_true_iff in Hl as [He Hl].
    destruct (total pegpeg_d pegpeg_d_ptx buf penv _ _ pegpeg_wf (length buf) (hrank (nul_table pegpeg_d) (rank_table pegpeg_d (nul_table pegpeg_d)) e) (Analyses.esize e) e p Hp ltac:(lia) (le_n _) (le_n _) He)
      as (n & [[|p1 f1] evs] & Hr).
    + apply kos_head. exists n, evs. exact Hr.
    + destruct (ev_ok pegpeg_d pegpeg_d_ptx buf penv n e p _ Hp Hr) as (_ & W & B). cbn [fst] in *.
      pose proof (wf_forest_le _ _ _ W) as Lp.
      eapply kos_tail; [exists n, evs; exact Hr|]. apply IH; [exact B|exact Hl|]. intros p' Hp'. apply Hno. lia.
Qed.
Lemma ko_char_nowhere c p : (forall p', (p <= p')%nat -> nth_error buf p' <> Some c) -> forall p', (p <= p')%nat -> ko (EChar c) p'.
Proof. intros Hno p' Hp'. apply ko_char. intros c' E Ec. subst c'. exact (Hno p' Hp' E). Qed.
Lemma kos_until_char c post pre p : (p <= length buf)%nat ->
  forallb (local_ok pegpeg_d (nul_table pegpeg_d)) pre = true ->
  (forall p', (p <= p')%nat -> nth_error buf p' <> Some c) -> kos (pre ++ EChar c :: post) p.
Proof. intros Hp Hl Hno. apply kos_until; [exact Hp|exact Hl|apply ko_char_nowhere; exact Hno]. Qed.

Lemma At_nth s : forall p k, At p s -> nth_error buf (p + k)%nat = nth_error s k.
Proof.
  induction s as [|x s IH]; intros p k H.
  - pose proof (At_nil _ _ H) as E. apply nth_error_None in E. destruct k; cbn [nth_error]; apply nth_error_None; lia.
  - destruct k as [|k]; [rewrite Nat.add_0_r; exact (At_head _ _ _ _ H)|].
    replace (p + S k)%nat with (S p + k)%nat by lia. cbn [nth_error]. apply IH. exact (At_tail _ _ _ _ H).
Qed.
Lemma no_char_after q c0 c s : At q (c0 :: s) -> ~ In c s -> forall p', (S q <= p')%nat -> nth_error buf p' <> Some c.
Proof.
  intros Hat Hn p' Hp' Hc. pose proof (At_nth _ _ (p' - S q) (At_tail _ _ _ _ Hat)) as E.
  replace (S q + (p' - S q))%nat with p' in E by lia. rewrite Hc in E. apply Hn. eapply nth_error_In. symmetry. exact E.
Qed.

(** an opening quote (single or double) with no closing quote behind it *)
Lemma literal_unclosed_ko q c s : c = 39 \/ c = 34 -> At q (c :: s) -> ~ In c s -> ko (EName pr_Literal) q.
Proof.
  intros Hc Hat Hn. pose proof (no_char_after q c c s Hat Hn) as Hno.
  assert (Hq : (S q <= length buf)%nat).
  { destruct Hat as [L E]. destruct (Nat.lt_ge_cases q (length buf)) as [H|H]; [lia|]. rewrite skipn_all2 in E by exact H. discriminate. }
  let b := eval vm_compute in (nth_error pegpeg_d pr_Literal) in
  lazymatch b with
  | Some (RBody (EAlt [ESeq [EChar ?c1; ?o1; ?s1; EChar ?c1'; ?sp1]; ESeq [EChar ?c2; ?o2; ?s2; EChar ?c2'; ?sp2]])) =>
      assert (Eb : nth_error pegpeg_d pr_Literal = Some (RBody (EAlt [ESeq (EChar c1 :: [o1; s1] ++ EChar c1' :: [sp1]); ESeq (EChar c2 :: [o2; s2] ++ EChar c2' :: [sp2])])))
        by (vm_compute; reflexivity);
      assert (L1 : forallb (local_ok pegpeg_d (nul_table pegpeg_d)) [o1; s1] = true) by (vm_compute; reflexivity);
      assert (L2 : forallb (local_ok pegpeg_d (nul_table pegpeg_d)) [o2; s2] = true) by (vm_compute; reflexivity)
  end.
  eapply ko_name; [exact Eb|]. apply ko_alt. at1 Hat as A1.
  destruct Hc as [-> | ->].
  - apply koa_cons; [|apply koa_cons; [|apply koa_nil]].
    + apply ko_seq. eapply kos_tail; [apply ok_char; eapply At_head; exact Hat|]. apply kos_until_char; [exact Hq|exact L1|exact Hno].
    + apply ko_seq. apply kos_head. eapply ko_char_at; [exact Hat|]. intros c' s' E. inv E. lia.
  - apply koa_cons; [|apply koa_cons; [|apply koa_nil]].
    + apply ko_seq. apply kos_head. eapply ko_char_at; [exact Hat|]. intros c' s' E. inv E. lia.
    + apply ko_seq. eapply kos_tail; [apply ok_char; eapply At_head; exact Hat|]. apply kos_until_char; [exact Hq|exact L2|exact Hno].
Qed.

Lemma unclosed_quote_ends c s : c = 39 \/ c = 34 -> ~ In c s -> Ends (c :: s).
Proof.
  intros Hc Hn.
  assert (Hcc : c <> 32 /\ c <> 9 /\ c <> 10 /\ c <> 13 /\ c <> 35 /\ c <> 47 /\ c <> 8592 /\ c <> 60 /\ c <> 63 /\ c <> 42 /\ c <> 43 /\
                c <> 38 /\ c <> 33 /\ c <> 40 /\ c <> 91 /\ c <> 46 /\ c <> 123 /\ is_istart c = false /\ is_icont c = false)
    by (destruct Hc as [-> | ->]; repeat split; try lia; reflexivity).
  destruct Hcc as (N1&N2&N3&N4&N5&N6&N7&N8&N9&N10&N11&N12&N13&N14&N15&N16&N17&His&Hic).
  split; [cbn [stop]; repeat split; try assumption; intros E; congruence|].
  intros q Hat.
  assert (Hf : fol buf penv q (c :: s)) by (apply fol_char; try assumption; intros E; congruence).
  pose proof (literal_unclosed_ko q c s Hc Hat Hn) as KL.
  assert (KI : ko (EName pr_Identifier) q) by (eapply identifier_ko; [exact Hat|intros ? ? E; inv E; exact His]).
  assert (KP : ko (EName pr_Primary) q) by korun.
  assert (KS : ko (EName pr_Suffix) q) by korun.
  split; [exact Hf|]. split; [korun|]. split; [eapply tok_ko; [lookup|exact Hat|intros ? ? E; inv E; assumption]|].
  split; [intros ? ? E; inv E; assumption|]. split; [intros ? ? E; inv E; exact Hic|]. korun.
Qed.

(** A well-formed file behind which a literal is opened and never closed is refused. *)
Theorem grammar_rejects_unclosed_quote f c s : file_ok f -> c = 39 \/ c = 34 -> ~ In c s -> buf = fshow f ++ c :: s ->
  ko (EName pr_Grammar) 0.
Proof. intros Hf Hc Hn Ebuf. exact (grammar_rejects_trailing_gen f (c :: s) Hf (unclosed_quote_ends c s Hc Hn) Ebuf). Qed.

(** ** an opening bracket that is never closed: ( without ), < without >, { without }, [ without ] *)
Lemma ends_of_primary_ko c s :
  c <> 32 -> c <> 9 -> c <> 10 -> c <> 13 -> c <> 35 -> c <> 47 -> c <> 8592 -> c <> 63 -> c <> 42 -> c <> 43 -> c <> 38 -> c <> 33 ->
  is_icont c = false -> (c = 60 -> head_ne 45 s) ->
  (forall q, At q (c :: s) -> ko (EName pr_Primary) q) -> Ends (c :: s).
Proof.
  intros N1 N2 N3 N4 N5 N6 N7 N8 N9 N10 N11 N12 Hic H60 HP.
  assert (His : is_istart c = false) by (unfold is_icont in Hic; destruct (is_istart c); [discriminate|reflexivity]).
  split; [cbn [stop]; repeat split; try assumption; intros E; congruence|].
  intros q Hat.
  assert (Hf : fol buf penv q (c :: s)) by (apply fol_char; try assumption; intros E; congruence).
  pose proof (HP q Hat) as KP.
  assert (KI : ko (EName pr_Identifier) q) by (eapply identifier_ko; [exact Hat|intros ? ? E; inv E; exact His]).
  assert (KS : ko (EName pr_Suffix) q) by korun.
  split; [exact Hf|]. split; [korun|]. split; [eapply tok_ko; [lookup|exact Hat|intros ? ? E; inv E; assumption]|].
  split; [intros ? ? E; inv E; assumption|]. split; [intros ? ? E; inv E; exact Hic|]. korun.
Qed.

Lemma len_at q c s : At q (c :: s) -> (S q <= length buf)%nat.
Proof. intros [L E]. destruct (Nat.lt_ge_cases q (length buf)) as [H|H]; [lia|]. rewrite skipn_all2 in E by exact H. discriminate. Qed.
Lemma no_char_from q c0 c s : At q (c0 :: s) -> c0 <> c -> ~ In c s -> forall p', (q <= p')%nat -> nth_error buf p' <> Some c.
Proof.
  intros Hat N Hn p' Hp'. destruct (Nat.eq_dec p' q) as [->|Ne].
  - rewrite (At_head _ _ _ _ Hat). congruence.
  - apply (no_char_after q c0 c s Hat Hn). lia.
Qed.

Lemma paren_unclosed_ko q s : At q (40 :: s) -> ~ In 41 s -> ko (EName pr_Primary) q.
Proof.
  intros Hat Hn. pose proof (no_char_from q 40 41 s Hat ltac:(lia) Hn) as Hno. pose proof (len_at _ _ _ Hat) as Hq.
  assert (KC : forall p', (q <= p')%nat -> ko (EName pr_Close) p').
  { intros p' Hp'. ko_into_rule. apply ko_seq. apply kos_head. apply (ko_char_nowhere 41 q Hno p' Hp'). }
  assert (K : ko (ESeq [EName pr_Open; EName pr_Expression; EName pr_Close]) q).
  { apply ko_seq. apply (kos_until (EName pr_Close) [] [EName pr_Open; EName pr_Expression] q); [lia|vm_compute; reflexivity|exact KC]. }
  assert (KI : ko (EName pr_Identifier) q) by (eapply identifier_ko; [exact Hat|intros ? ? E; inv E; reflexivity]).
  korun.
Qed.
Lemma angle_unclosed_ko q s : At q (60 :: s) -> ~ In 62 s -> ko (EName pr_Primary) q.
Proof.
  intros Hat Hn. pose proof (no_char_from q 60 62 s Hat ltac:(lia) Hn) as Hno. pose proof (len_at _ _ _ Hat) as Hq.
  assert (KC : forall p', (q <= p')%nat -> ko (EName pr_End) p').
  { intros p' Hp'. ko_into_rule. apply ko_seq. apply kos_head. apply (ko_char_nowhere 62 q Hno p' Hp'). }
  let b := eval vm_compute in (nth_error pegpeg_d pr_Primary) in
  lazymatch b with
  | Some (RBody (EAlt [_; _; _; _; _; _; ESeq [?b1; ?e1; ?n1; ?a1]])) =>
      assert (K : ko (ESeq [b1; e1; n1; a1]) q)
        by (apply ko_seq; apply (kos_until n1 [a1] [b1; e1] q); [lia|vm_compute; reflexivity|exact KC])
  end.
  assert (KI : ko (EName pr_Identifier) q) by (eapply identifier_ko; [exact Hat|intros ? ? E; inv E; reflexivity]).
  korun.
Qed.
Lemma brace_unclosed_ko q s : At q (123 :: s) -> ~ In 125 s -> ko (EName pr_Primary) q.
Proof.
  intros Hat Hn. pose proof (no_char_from q 123 125 s Hat ltac:(lia) Hn) as Hno. pose proof (len_at _ _ _ Hat) as Hq.
  assert (KA : ko (EName pr_Action) q).
  { let b := eval vm_compute in (nth_error pegpeg_d pr_Action) in
    lazymatch b with
    | Some (RBody (ESeq [?o; ?body; EChar ?cl; ?sp])) =>
        eapply ko_name; [vm_compute; reflexivity|]; apply ko_seq;
        apply (kos_until_char cl [sp] [o; body] q); [lia|vm_compute; reflexivity|exact Hno]
    end. }
  assert (KI : ko (EName pr_Identifier) q) by (eapply identifier_ko; [exact Hat|intros ? ? E; inv E; reflexivity]).
  korun.
Qed.
Lemma bracket_unclosed_ko q s : At q (91 :: s) -> ~ In 93 s -> ko (EName pr_Primary) q.
Proof.
  intros Hat Hn. pose proof (no_char_from q 91 93 s Hat ltac:(lia) Hn) as Hno. pose proof (len_at _ _ _ Hat) as Hq.
  assert (KK : ko (EName pr_Class) q).
  { let b := eval vm_compute in (nth_error pegpeg_d pr_Class) in
    lazymatch b with
    | Some (RBody (ESeq [EAlt [ESeq [?o1; ?o2; ?m1; ESeq [EChar ?c1; EChar ?c2]]; ESeq [?o3; ?m2; EChar ?c3]]; ?sp])) =>
        eapply ko_name; [vm_compute; reflexivity|]; apply ko_seq; apply kos_head; apply ko_alt;
        apply koa_cons; [|apply koa_cons; [|apply koa_nil]];
        [ apply ko_seq; apply (kos_until (ESeq [EChar c1; EChar c2]) [] [o1; o2; m1] q); [lia|vm_compute; reflexivity|];
          intros p' Hp'; apply ko_seq; apply kos_head; apply (ko_char_nowhere c1 q Hno p' Hp')
        | apply ko_seq; apply (kos_until_char c3 [] [o3; m2] q); [lia|vm_compute; reflexivity|exact Hno] ]
    end. }
  assert (KI : ko (EName pr_Identifier) q) by (eapply identifier_ko; [exact Hat|intros ? ? E; inv E; reflexivity]).
  korun.
Qed.

(** A well-formed file behind which a group, a capture, an action or a class is opened and never closed is refused. *)
Theorem grammar_rejects_unclosed_bracket f o s : file_ok f ->
  (o = 40 /\ ~ In 41 s) \/ (o = 60 /\ ~ In 62 s /\ head_ne 45 s) \/ (o = 123 /\ ~ In 125 s) \/ (o = 91 /\ ~ In 93 s) ->
  buf = fshow f ++ o :: s -> ko (EName pr_Grammar) 0.
Proof.
  intros Hf Ho Ebuf. apply (grammar_rejects_trailing_gen f (o :: s) Hf); [|exact Ebuf].
  destruct Ho as [[-> Hn]|[[-> [Hn H45]]|[[-> Hn]|[-> Hn]]]];
    apply ends_of_primary_ko; try lia; try reflexivity; try (intros E; discriminate E); try (intros _; exact H45).
  - intros q Hq. apply paren_unclosed_ko with (s := s); assumption.
  - intros q Hq. apply angle_unclosed_ko with (s := s); assumption.
  - intros q Hq. apply brace_unclosed_ko with (s := s); assumption.
  - intros q Hq. apply bracket_unclosed_ko with (s := s); assumption.
Qed.

(** ** a prefix operator with nothing to apply to: & or ! followed by blanks and comments only, to the end of the text *)
Lemma dangling_prefix_ends o l : o = 38 \/ o = 33 -> lay l -> Ends (o :: l).
Proof.
  intros Ho Hl.
  assert (Hoc : o <> 32 /\ o <> 9 /\ o <> 10 /\ o <> 13 /\ o <> 35 /\ o <> 47 /\ o <> 8592 /\ o <> 60 /\ o <> 63 /\ o <> 42 /\ o <> 43 /\
                o <> 40 /\ o <> 39 /\ o <> 34 /\ o <> 91 /\ o <> 46 /\ o <> 123 /\ is_istart o = false /\ is_icont o = false)
    by (destruct Ho as [-> | ->]; repeat split; try lia; reflexivity).
  destruct Hoc as (N1&N2&N3&N4&N5&N6&N7&N8&N9&N10&N11&N12&N13&N14&N15&N16&N17&His&Hic).
  split; [cbn [stop]; repeat split; try assumption; intros E; congruence|].
  intros q Hat.
  assert (Hf : fol buf penv q (o :: l)) by (apply fol_char; try assumption; intros E; congruence).
  assert (KI : ko (EName pr_Identifier) q) by (eapply identifier_ko; [exact Hat|intros ? ? E; inv E; exact His]).
  at1 Hat as A1. rewrite <- (app_nil_r l) in A1.
  pose proof (fun t => spacing_ok buf penv l [] (S q) t Hl I A1) as Hsp. atn A1 as Ae.
  (* at the end of the text nothing starts *)
  set (pe := (S q + length l)%nat) in *.
  assert (KIe : ko (EName pr_Identifier) pe) by (eapply identifier_ko; [exact Ae|intros ? ? E; discriminate E]).
  assert (KAe : ko (EName pr_Action) pe) by korun.
  assert (KPe : ko (EName pr_Primary) pe) by korun.
  assert (KSe : ko (EName pr_Suffix) pe) by korun.
  assert (KP : ko (EName pr_Primary) q) by korun.
  assert (KS : ko (EName pr_Suffix) q) by korun.
  split; [exact Hf|]. split.
  { destruct Ho as [-> | ->]; korun. }
  split; [eapply tok_ko; [lookup|exact Hat|intros ? ? E; inv E; assumption]|].
  split; [intros ? ? E; inv E; assumption|]. split; [intros ? ? E; inv E; exact Hic|]. korun.
Qed.

(** A well-formed file followed by an & or an ! with nothing behind it but blanks and comments is refused. *)
Theorem grammar_rejects_dangling_prefix f o l : file_ok f -> o = 38 \/ o = 33 -> lay l -> buf = fshow f ++ o :: l ->
  ko (EName pr_Grammar) 0.
Proof. intros Hf Ho Hl Ebuf. exact (grammar_rejects_trailing_gen f (o :: l) Hf (dangling_prefix_ends o l Ho Hl) Ebuf). Qed.

(** the text of a file up to and including the name of the parser type *)
Definition pre_text (f : cfile) : list rune :=
  flat_map hshow (f_header f) ++ kw_package ++ f_s_pkg f ++ f_pkg f ++ f_s1 f ++ flat_map impshow (f_imports f) ++
  kw_type ++ f_s_type f ++ f_peg f ++ f_s2 f.

(** A text that stops inside the parser's state: "Peg {" opened and never closed. *)
Theorem grammar_rejects_unclosed_state f T : head_ok f -> ~ In 125 T -> buf = pre_text f ++ kw_Peg ++ f_s3 f ++ 123 :: T ->
  ko (EName pr_Grammar) 0.
Proof.
  intros (Hh & Hsp & Hspn & Hpk & Hs1 & Hs1n & Himp & Hst & Hstn & Hpeg & Hs2 & Hs2n & Hs3 & Hbal & Hs4) HT Ebuf.
  destruct f as [hdr spkg pkg s1 imps stype peg s2 s3 state s4 defs]. unfold pre_text in *.
  cbn [f_header f_s_pkg f_pkg f_s1 f_imports f_s_type f_peg f_s2 f_s3 f_state f_s4 f_defs] in *.
  assert (Hat : At 0 (flat_map hshow hdr ++ kw_package ++ spkg ++ pkg ++ s1 ++ flat_map impshow imps ++
                      kw_type ++ stype ++ peg ++ s2 ++ kw_Peg ++ s3 ++ 123 :: T)).
  { replace (flat_map hshow hdr ++ kw_package ++ spkg ++ pkg ++ s1 ++ flat_map impshow imps ++
             kw_type ++ stype ++ peg ++ s2 ++ kw_Peg ++ s3 ++ 123 :: T) with buf; [apply At_start|].
    rewrite Ebuf. repeat (rewrite <- ?app_assoc, <- ?app_comm_cons; cbn [app]). reflexivity. }
  let b := eval vm_compute in (nth_error pegpeg_d pr_Grammar) in
  lazymatch b with
  | Some (RBody (ESeq [_; _; _; _; ?a1; _; _; _; _; ?a2; _; _; _; ?a3; _; _])) => pose (ea1 := a1); pose (ea2 := a2); pose (ea3 := a3)
  end.
  assert (Hea1 : forall q t0, C ea1 q q [(CAddPackage, sub buf t0)] t0 t0) by (intros; subst ea1; cgo).
  assert (Hea2 : forall q t0, C ea2 q q [(CAddPeg, sub buf t0)] t0 t0) by (intros; subst ea2; cgo).
  assert (Hea3 : forall q t0, C ea3 q q [(CAddState, sub buf t0)] t0 t0) by (intros; subst ea3; cgo).
  (* 1: header, package *)
  assert (Hst1 : stop (flat_map impshow imps ++ kw_type ++ stype ++ peg ++ s2 ++ kw_Peg ++ s3 ++ 123 :: T)).
  { destruct imps as [|i' l']; cbn [flat_map app]; [unfold kw_type; cbn [app]; apply stop_char; lia|].
    destruct i'; cbn [impshow]; unfold kw_import; cbn [app]; apply stop_char; lia. }
  destruct (seg_head buf penv hdr spkg pkg s1 _ ea1 0%nat (0%nat, 0%nat) Hh Hsp Hspn Hpk Hs1 Hs1n Hst1 Hea1 Hat) as [t1 S1].
  set (q1 := (0 + length (flat_map hshow hdr) + 7 + length spkg + length pkg + length s1)%nat) in *.
  assert (A1 : At q1 (flat_map impshow imps ++ kw_type ++ stype ++ peg ++ s2 ++ kw_Peg ++ s3 ++ 123 :: T)).
  { subst q1. atn Hat as X0. unfold kw_package in X0. cbn [app] in X0. at1 X0 as X1. at1 X1 as X2. at1 X2 as X3. at1 X3 as X4. at1 X4 as X5. at1 X5 as X6. at1 X6 as X7.
    atn X7 as X8. atn X8 as X9. atn X9 as X10.
    replace (0 + length (flat_map hshow hdr) + 7 + length spkg + length pkg + length s1)%nat
      with (S (S (S (S (S (S (S (0 + length (flat_map hshow hdr)))))))) + length spkg + length pkg + length s1)%nat by lia. exact X10. }
  (* 2: imports *)
  atn A1 as A2.
  assert (Kimp : ko (EName pr_Import) (q1 + length (flat_map impshow imps))%nat) by (unfold kw_type in A2; cbn [app] in A2; korun).
  assert (Hst2 : stop (kw_type ++ stype ++ peg ++ s2 ++ kw_Peg ++ s3 ++ 123 :: T)) by (unfold kw_type; cbn [app]; apply stop_char; lia).
  destruct (imports_star buf penv imps _ q1 t1 Himp Hst2 Kimp A1) as [t2 S2].
  (* 3: type *)
  assert (Hst3 : stop (kw_Peg ++ s3 ++ 123 :: T)) by (unfold kw_Peg; cbn [app]; apply stop_char; lia).
  destruct (seg_type buf penv stype peg s2 _ ea2 _ t2 Hst Hstn Hpeg Hs2 Hs2n Hst3 Hea2 A2) as [t3 S3].
  set (q3 := (q1 + length (flat_map impshow imps) + 4 + length stype + length peg + length s2)%nat) in *.
  assert (A3 : At q3 (kw_Peg ++ s3 ++ 123 :: T)).
  { subst q3. unfold kw_type in A2. cbn [app] in A2. at1 A2 as X1. at1 X1 as X2. at1 X2 as X3. at1 X3 as X4. atn X4 as X5. atn X5 as X6. atn X6 as X7.
    replace (q1 + length (flat_map impshow imps) + 4 + length stype + length peg + length s2)%nat
      with (S (S (S (S (q1 + length (flat_map impshow imps))))) + length stype + length peg + length s2)%nat by lia. exact X7. }
  (* 4: Peg, blanks, and a brace that is never closed *)
  unfold kw_Peg in A3. cbn [app] in A3. at1 A3 as X1. at1 X1 as X2. at1 X2 as X3.
  assert (Hst4 : stop (123 :: T)) by (apply stop_char; lia).
  pose proof (fun t => spacing_ok buf penv s3 _ _ t Hs3 Hst4 X3) as Hsp3. atn X3 as X4.
  pose proof (no_char_from _ 123 125 T X4 ltac:(lia) HT) as Hno. pose proof (len_at _ _ _ X4) as Hq.
  assert (KA : ko (EName pr_Action) (S (S (S q3)) + length s3)%nat).
  { let b := eval vm_compute in (nth_error pegpeg_d pr_Action) in
    lazymatch b with
    | Some (RBody (ESeq [?o; ?bd; EChar ?cl; ?sp])) =>
        eapply ko_name; [vm_compute; reflexivity|]; apply ko_seq;
        apply (kos_until_char cl [sp] [o; bd]); [lia|vm_compute; reflexivity|exact Hno]
    end. }
  assert (K4 : kos [kwe kw_Peg; EName pr_Spacing; EName pr_Action; ea3; EPlus (EName pr_Definition); EName pr_EndOfFile] q3).
  { unfold kw_Peg. cbn [map]. eapply (kos_tail_C _ _ _ _ _ _ _ (0%nat, 0%nat)); [crun|].
    eapply (kos_tail_C _ _ _ _ _ _ _ _ _ (Hsp3 (0%nat, 0%nat))). apply kos_head. exact KA. }
  ko_into_rule. apply ko_seq.
  assert (Hall : kos (([EName pr_Header; kwe kw_package; EName pr_MustSpacing; EName pr_Identifier; ea1] ++ [EStar (EName pr_Import)] ++
                  [kwe kw_type; EName pr_MustSpacing; EName pr_Identifier; ea2]) ++
                  [kwe kw_Peg; EName pr_Spacing; EName pr_Action; ea3; EPlus (EName pr_Definition); EName pr_EndOfFile]) 0).
  { eapply kos_app_Cs; [|exact K4].
    eapply Cs_app; [exact S1|]. eapply Cs_app; [eapply Cs_cons; [exact S2|apply Cs_nil]|exact S3]. }
  subst ea1 ea2 ea3. cbn [app map kw_package kw_type kw_Peg] in Hall. exact Hall.
Qed.

(** a keyword does not match a text it is not a prefix of *)
Lemma kw_ko l : forall p s0, At p s0 -> (forall r, s0 <> l ++ r) -> kos (map EChar l) p.
Proof.
  induction l as [|k l IH]; intros p s0 Hat N; [exfalso; apply (N s0); reflexivity|]. cbn [map].
  destruct s0 as [|c s']; [apply kos_head; korun|].
  destruct (Z.eq_dec c k) as [->|Nc].
  - at1 Hat as A1. eapply (kos_tail_C _ _ _ _ _ _ _ (0%nat, 0%nat)); [crun|].
    apply (IH _ s' A1). intros r E. apply (N r). cbn [app]. rewrite E. reflexivity.
  - apply kos_head. korun.
Qed.

(** Text without a package clause is refused: whatever comments and blank lines come first, if what follows them
    does not start with the word "package" the rule Grammar fails (this includes the empty text and a text of
    comments only). *)
Theorem grammar_rejects_no_package hdr tl : header_ok hdr tl -> stop tl -> (forall r, tl <> kw_package ++ r) ->
  buf = flat_map hshow hdr ++ tl -> ko (EName pr_Grammar) 0.
Proof.
  intros Hh Hst N Ebuf.
  assert (Hat : At 0 (flat_map hshow hdr ++ tl)) by (rewrite <- Ebuf; apply At_start).
  destruct (header_star buf penv hdr _ 0%nat (0%nat, 0%nat) Hh Hst Hat) as [t0 Hhdr].
  assert (Hhd : C (EName pr_Header) 0 (0 + length (flat_map hshow hdr))%nat (map hcall hdr) (0%nat, 0%nat) t0) by (into_rule; exact Hhdr).
  atn Hat as A0.
  pose proof (kw_ko kw_package _ _ A0 N) as K.
  ko_into_rule. apply ko_seq. eapply kos_tail_C; [exact Hhd|]. apply kos_head. apply ko_seq. exact K.
Qed.

End Reject.
