(** Characters of literals and classes: raw, the simple escapes (either letter case), \0x hex, octal. *)
From PegV Require Import Base.Tac Base.ListX Spec.Syntax Spec.Peg Proofs.PegRel Model.Calls Generated.PegPeg Reader.Base Reader.Lex.
Local Open Scope Z_scope.

Section Chars.
Variable buf : list rune.
Variable penv : nat -> nat -> bool.
Notation At := (At buf).
Notation C := (C buf penv).
Notation ko := (ko pegpeg_d pegpeg_d_ptx buf penv).

Lemma escape_esc c rest p t : is_esc c = true -> At p (92 :: c :: rest) ->
  C (EName pr_Escape) p (S (S p)) [(CAddCharacter, [esc_val c])] t t.
Proof.
  intros He Hat. unfold is_esc in He. cbn [existsb esc_table fst] in He.
  repeat match type of He with
  | (?x =? c) || _ = true => destruct (Z.eqb_spec x c) as [<-|?]; [clear He; cgo|cbn [orb] in He]
  end.
  discriminate.
Qed.

(** the second character of a hex or octal spelling is a digit: none of the simple escapes *)
Notation hexdig := (EAlt [ERange 48 57; ERange 97 102; ERange 65 70]).
Lemma hexdig_ok p c s t : At p (c :: s) -> is_hex c = true -> C hexdig p (S p) [] t t.
Proof.
  intros Hat Hc. unfold is_hex in Hc.
  destruct ((48 <=? c) && (c <=? 57))%bool eqn:E1; [cgo|].
  destruct ((97 <=? c) && (c <=? 102))%bool eqn:E2; [cgo|].
  cbn [orb] in Hc. cgo.
Qed.
Lemma hexdig_ko p s0 : At p s0 -> (forall c s', s0 = c :: s' -> is_hex c = false) -> ko hexdig p.
Proof.
  intros Hat N. destruct s0 as [|c s']; [korun|]. pose proof (N c s' eq_refl) as Hc. unfold is_hex in Hc. korun.
Qed.
Lemma hex_star ds : forall p rest t, forallb is_hex ds = true -> (forall c s', rest = c :: s' -> is_hex c = false) ->
  At p (ds ++ rest) -> C (EStar hexdig) p (p + length ds)%nat [] t t.
Proof.
  induction ds as [|d ds IH]; intros p rest t Hd Hn Hat; cbn [app length forallb] in *.
  - pose proof (hexdig_ko _ _ Hat Hn). eapply C_eq; [apply C_star_nil; eassumption|lia|reflexivity|reflexivity].
  - apply andb_true_iff in Hd. destruct Hd as [Hc Hd]. at1 Hat as A1.
    pose proof (hexdig_ok _ _ _ t Hat Hc) as K1. pose proof (IH _ _ t Hd Hn A1) as K2.
    eapply C_eq; [eapply C_star_cons; [exact K1|exact K2]|lia|reflexivity|reflexivity].
Qed.

Lemma escape_hex x ds rest p t : kvalid (KHex x ds) = true -> kfollow (KHex x ds) rest = true ->
  At p (92 :: 48 :: x :: ds ++ rest) ->
  C (EName pr_Escape) p (p + 3 + length ds)%nat [(CAddHexaCharacter, ds)] t ((p + 3)%nat, (p + 3 + length ds)%nat).
Proof.
  intros Hv Hf Hat. cbn [kvalid] in Hv. apply andb_true_iff in Hv. destruct Hv as [Hx Hd].
  destruct ds as [|d ds]; [discriminate|]. cbn [forallb] in Hd. apply andb_true_iff in Hd. destruct Hd as [Hd1 Hd].
  assert (Hn : forall c s', rest = c :: s' -> is_hex c = false).
  { intros c s' ->. cbn [kfollow] in Hf. destruct (is_hex c); [discriminate|reflexivity]. }
  at1 Hat as A1. at1 A1 as A2. at1 A2 as A3. cbn [app] in A3. at1 A3 as A4.
  pose proof (fun t => hexdig_ok _ _ _ t A3 Hd1) as K1.
  pose proof (fun t => hex_star ds _ _ t Hd Hn A4) as K2.
  pose proof (At_sub _ _ (d :: ds) rest A3) as Hsub.
  assert (Hx' : x = 120 \/ x = 88) by lia.
  destruct Hx' as [-> | ->].
  all: eapply C_eq; [crun|cbn [length]; lia| |f_equal; cbn [length]; lia].
  all: replace (S (S (S (S p))) + length ds)%nat with (S (S (S p)) + length (d :: ds))%nat by (cbn [length]; lia).
  all: cbn [app calls1 nth pegpeg_calls map fst snd arg_of]; rewrite Hsub; reflexivity.
Qed.

Ltac oct_unfold := unfold is_oct, is_oct03, is_hex in *.

Lemma escape_oct3 a b c rest p t : kvalid (KOct [a; b; c]) = true -> At p (92 :: a :: b :: c :: rest) ->
  C (EName pr_Escape) p (p + 4)%nat [(CAddOctalCharacter, [a; b; c])] t (S p, (p + 4)%nat).
Proof.
  intros Hv Hat. cbn [kvalid] in Hv. apply andb_true_iff in Hv. destruct Hv as [Hv Hc]. apply andb_true_iff in Hv. destruct Hv as [Ha Hb].
  at1 Hat as A1. pose proof (At_sub _ _ [a; b; c] rest A1) as Hsub. cbn [length] in Hsub. oct_unfold.
  destruct (Z.eq_dec a 48) as [->|Na].
  all: eapply C_eq; [crun|lia| |f_equal; lia].
  all: replace (S (S (S (S p)))) with (S p + 3)%nat by lia.
  all: cbn [app calls1 nth pegpeg_calls map fst snd arg_of]; rewrite Hsub; reflexivity.
Qed.

Lemma escape_oct2 a b rest p t : kvalid (KOct [a; b]) = true -> kfollow (KOct [a; b]) rest = true -> At p (92 :: a :: b :: rest) ->
  C (EName pr_Escape) p (p + 3)%nat [(CAddOctalCharacter, [a; b])] t (S p, (p + 3)%nat).
Proof.
  intros Hv Hf Hat. cbn [kvalid] in Hv. apply andb_true_iff in Hv. destruct Hv as [Ha Hb]. cbn [kfollow] in Hf.
  at1 Hat as A1. pose proof (At_sub _ _ [a; b] rest A1) as Hsub. cbn [length] in Hsub.
  assert (Hn : is_oct03 a = true -> forall c r, rest = c :: r -> is_oct c = false).
  { intros E c r ->. rewrite E in Hf. destruct (is_oct c); [discriminate|reflexivity]. }
  destruct (is_oct03 a) eqn:E3.
  - specialize (Hn eq_refl). destruct rest as [|c r].
    + oct_unfold. destruct (Z.eq_dec a 48) as [->|Na].
      all: eapply C_eq; [crun|lia| |f_equal; lia].
      all: replace (S (S (S p))) with (S p + 2)%nat by lia.
      all: cbn [app calls1 nth pegpeg_calls map fst snd arg_of]; rewrite Hsub; reflexivity.
    + pose proof (Hn c r eq_refl) as Hc. oct_unfold. destruct (Z.eq_dec a 48) as [->|Na].
      all: eapply C_eq; [crun|lia| |f_equal; lia].
      all: replace (S (S (S p))) with (S p + 2)%nat by lia.
      all: cbn [app calls1 nth pegpeg_calls map fst snd arg_of]; rewrite Hsub; reflexivity.
  - clear Hn. oct_unfold. assert (a <> 48) by lia.
    eapply C_eq; [crun|lia| |f_equal; lia].
    replace (S (S (S p))) with (S p + 2)%nat by lia.
    cbn [app calls1 nth pegpeg_calls map fst snd arg_of]; rewrite Hsub; reflexivity.
Qed.

Lemma escape_oct1 a rest p t : kvalid (KOct [a]) = true -> kfollow (KOct [a]) rest = true -> At p (92 :: a :: rest) ->
  C (EName pr_Escape) p (p + 2)%nat [(CAddOctalCharacter, [a])] t (S p, (p + 2)%nat).
Proof.
  intros Hv Hf Hat. cbn [kvalid] in Hv. cbn [kfollow] in Hf.
  at1 Hat as A1. pose proof (At_sub _ _ [a] rest A1) as Hsub. cbn [length] in Hsub.
  assert (Hfin : forall k, nth k pegpeg_calls [] = [(CAddOctalCharacter, AText)] ->
                 calls1 (k, sub buf (S p, S (S p))) ++ [] = [(CAddOctalCharacter, [a])]).
  { intros k Hk. replace (S (S p)) with (S p + 1)%nat by lia. unfold calls1. cbn [fst snd]. rewrite Hk.
    cbn [map fst snd arg_of app]. rewrite Hsub. reflexivity. }
  destruct rest as [|c r].
  - oct_unfold. destruct (Z.eq_dec a 48) as [->|Na]; [|destruct (Z_le_gt_dec a 51)].
    all: eapply C_eq; [crun|lia|apply Hfin; reflexivity|f_equal; lia].
  - apply andb_true_iff in Hf. destruct Hf as [Hc Hx]. apply negb_true_iff in Hc, Hx.
    destruct (Z.eq_dec a 48) as [->|Na].
    + (* "\0": not followed by x/X and a hex digit *)
      cbn [Z.eqb Pos.eqb andb] in Hx.
      destruct ((c =? 120) || (c =? 88))%bool eqn:Ex.
      * cbn [andb] in Hx. at1 A1 as A2. at1 A2 as A3.
        assert (Hk : ko hexdig (S (S (S p)))).
        { eapply hexdig_ko; [exact A3|]. intros d r' ->. exact Hx. }
        oct_unfold. assert (Hc' : c = 120 \/ c = 88) by lia. destruct Hc' as [-> | ->].
        all: eapply C_eq; [crun|lia|apply Hfin; reflexivity|f_equal; lia].
      * oct_unfold. assert (c <> 120 /\ c <> 88) as [? ?] by lia.
        eapply C_eq; [crun|lia|apply Hfin; reflexivity|f_equal; lia].
    + oct_unfold. destruct (Z_le_gt_dec a 51).
      all: eapply C_eq; [crun|lia|apply Hfin; reflexivity|f_equal; lia].
Qed.

Lemma escape_ko p s0 : At p s0 -> (forall c s', s0 = c :: s' -> c <> 92) -> ko (EName pr_Escape) p.
Proof. intros Hat N. destruct s0 as [|c s']; [korun|]. pose proof (N c s' eq_refl). korun. Qed.

(** every valid spelling is read back by Escape as the call it stands for *)
Lemma escape_ok k rest p t : kvalid k = true -> kfollow k rest = true -> (forall c, k <> KRaw c) -> At p (kshow k ++ rest) ->
  exists t', C (EName pr_Escape) p (p + length (kshow k))%nat [kcall false k] t t'.
Proof.
  intros Hv Hf Hr Hat. destruct k as [c|c|x ds|ds]; [exfalso; eapply Hr; reflexivity| | |].
  - eexists. cbn [kshow length app] in *. replace (p + 2)%nat with (S (S p)) by lia. eapply escape_esc; eassumption.
  - eexists. cbn [kshow length app kcall] in *. replace (p + S (S (S (length ds))))%nat with (p + 3 + length ds)%nat by lia.
    eapply escape_hex; eassumption.
  - cbn [kshow kcall] in *. destruct ds as [|a [|b [|c [|? ?]]]]; try discriminate; eexists; cbn [length app] in *.
    + replace (p + 2)%nat with (p + 2)%nat by lia. eapply escape_oct1; eassumption.
    + eapply escape_oct2; eassumption.
    + eapply escape_oct3; eassumption.
Qed.
Lemma kcall_esc dbl k : (forall c, k <> KRaw c) -> kcall dbl k = kcall false k.
Proof. destruct k; intros H; try reflexivity. exfalso. eapply H. reflexivity. Qed.

Theorem char_ok k rest p t : kvalid k = true -> kfollow k rest = true -> At p (kshow k ++ rest) ->
  exists t', C (EName pr_Char) p (p + length (kshow k))%nat [kcall false k] t t'.
Proof.
  intros Hv Hf Hat. destruct k as [c|c|x ds|ds].
  - (* raw *) cbn [kvalid kshow kcall length app andb] in *. apply negb_true_iff in Hv. assert (c <> 92) by lia.
    pose proof (escape_ko _ _ Hat ltac:(intros ? ? E; inv E; assumption)) as Hk.
    pose proof (At_sub _ _ [c] rest Hat) as Hsub. cbn [length] in Hsub.
    eexists. eapply C_eq; [crun|lia| |reflexivity].
    replace (S p) with (p + 1)%nat by lia. cbn [app calls1 nth pegpeg_calls map fst snd arg_of]. rewrite Hsub. reflexivity.
  - destruct (escape_ok (KEsc c) rest p t Hv Hf ltac:(discriminate) Hat) as [t' H]. eexists. cgo.
  - destruct (escape_ok (KHex x ds) rest p t Hv Hf ltac:(discriminate) Hat) as [t' H]. eexists. cgo.
  - destruct (escape_ok (KOct ds) rest p t Hv Hf ltac:(discriminate) Hat) as [t' H]. eexists. cgo.
Qed.

Theorem dchar_ok k rest p t : kvalid k = true -> kfollow k rest = true -> At p (kshow k ++ rest) ->
  exists t', C (EName pr_DoubleChar) p (p + length (kshow k))%nat [kcall true k] t t'.
Proof.
  intros Hv Hf Hat. destruct k as [c|c|x ds|ds].
  - (* raw *) cbn [kvalid kshow kcall length app andb] in *. apply negb_true_iff in Hv. assert (c <> 92) by lia.
    pose proof (escape_ko _ _ Hat ltac:(intros ? ? E; inv E; assumption)) as Hk.
    pose proof (At_sub _ _ [c] rest Hat) as Hsub. cbn [length] in Hsub.
    destruct (is_alpha c) eqn:Ea; unfold is_alpha in Ea.
    + destruct ((97 <=? c) && (c <=? 122))%bool eqn:E1.
      * eexists. eapply C_eq; [crun|lia| |reflexivity].
        replace (S p) with (p + 1)%nat by lia. cbn [app calls1 nth pegpeg_calls map fst snd arg_of]. rewrite Hsub. reflexivity.
      * cbn [orb] in Ea. eexists. eapply C_eq; [crun|lia| |reflexivity].
        replace (S p) with (p + 1)%nat by lia. cbn [app calls1 nth pegpeg_calls map fst snd arg_of]. rewrite Hsub. reflexivity.
    + apply orb_false_iff in Ea. destruct Ea as [E1 E2].
      eexists. eapply C_eq; [crun|lia| |reflexivity].
      replace (S p) with (p + 1)%nat by lia. cbn [app calls1 nth pegpeg_calls map fst snd arg_of]. rewrite Hsub. reflexivity.
  - destruct (escape_ok (KEsc c) rest p t Hv Hf ltac:(discriminate) Hat) as [t' H]. eexists. cgo.
  - destruct (escape_ok (KHex x ds) rest p t Hv Hf ltac:(discriminate) Hat) as [t' H]. eexists. cgo.
  - destruct (escape_ok (KOct ds) rest p t Hv Hf ltac:(discriminate) Hat) as [t' H]. eexists. cgo.
Qed.

End Chars.
