(** Builder safety for EVERY text the front end accepts (well-formed in the sense of Reader/Defs.v or not): a
    stack-effect analysis of peg.peg's own rule tree.  Each expression gets an effect - which nodes its actions pop
    (a character node where AddRange needs one), which they push, whether they use the captured text as ONE character
    and whether they leave such a text - and the analysis is proved sound for every derivation: the builder calls
    Execute() makes never pop an empty stack, never misuse a node and keep the expression stack's depth as stated.
    The table of rule effects is computed and checked by evaluation on the regenerated rule tree. *)
From PegV Require Import Base.Tac Base.ListX Spec.Syntax Spec.Peg Spec.Tokens Proofs.PegFacts Proofs.PegRel Model.Calls Model.Front
  Generated.PegPeg Reader.Base Reader.BridgeDefs.
From Coq Require Import Lia.
Local Open Scope nat_scope.

(** * effects *)
Inductive kind := KChr | KAny.
Definition kind_eqb (a b : kind) : bool := match a, b with KChr, KChr | KAny, KAny => true | _, _ => false end.
(** a node known as [have] can be used where [need] is required *)
Definition sat (have need : kind) : bool := match need, have with KAny, _ => true | KChr, KChr => true | KChr, KAny => false end.

Record eff := mkeff {
  pops : list kind;            (* required on top of the stack, top first *)
  pushes : list kind;          (* what replaces them *)
  tneed : bool;                (* the captured text at entry is used as one character *)
  tset : option bool }.        (* None: text register unchanged; Some true: left holding one character; Some false: anything *)

Definition id_eff : eff := mkeff [] [] false None.

(** [need] popped from a stack whose top is known as [have]: what is needed below, what remains of [have] *)
Fixpoint consume (need have : list kind) : option (list kind * list kind) :=
  match need, have with
  | [], h => Some ([], h)
  | n, [] => Some (n, [])
  | k :: n', h :: h' => if sat h k then consume n' h' else None
  end.

Definition compose (a b : eff) : option eff :=
  match consume (pops b) (pushes a) with
  | None => None
  | Some (extra, remain) =>
      if (tneed b && match tset a with Some false => true | _ => false end)%bool then None
      else Some (mkeff (pops a ++ extra) (pushes b ++ remain)
                       (tneed a || (tneed b && match tset a with None => true | _ => false end))
                       (match tset b with Some x => Some x | None => tset a end))
  end.

(** the weaker of two results *)
Definition kmeet (a b : kind) : kind := match a, b with KChr, KChr => KChr | _, _ => KAny end.
Fixpoint kmeets (a b : list kind) : option (list kind) :=
  match a, b with
  | [], [] => Some []
  | x :: a', y :: b' => match kmeets a' b' with Some r => Some (kmeet x y :: r) | None => None end
  | _, _ => None
  end.
Fixpoint kinds_eqb (a b : list kind) : bool :=
  match a, b with [], [] => true | x :: a', y :: b' => kind_eqb x y && kinds_eqb a' b' | _, _ => false end.
Definition tmeet (a b : option bool) : option bool :=
  match a, b with
  | None, None => None
  | Some true, Some true => Some true
  | _, _ => Some false
  end.
(** an effect holds as well with more nodes below, which stay as they are *)
Definition lift (a : eff) (ks : list kind) : eff := mkeff (pops a ++ ks) (pushes a ++ ks) (tneed a) (tset a).
Definition join (a b : eff) : option eff :=
  let a' := lift a (skipn (length (pops a)) (pops b)) in
  let b' := lift b (skipn (length (pops b)) (pops a)) in
  if kinds_eqb (pops a') (pops b') then
    match kmeets (pushes a') (pushes b') with
    | Some ps => Some (mkeff (pops a') ps (tneed a || tneed b) (tmeet (tset a) (tset b)))
    | None => None
    end
  else None.

(** a loop body: what it pushes can be popped by the next round; the result forgets what the nodes are *)
Definition star_eff (b : eff) : option eff :=
  if (Nat.eqb (length (pops b)) (length (pushes b)) && forallb (fun hn : kind * kind => sat (fst hn) (snd hn)) (combine (pushes b) (pops b))
      && negb (tneed b && match tset b with Some false => true | _ => false end))%bool
  then Some (mkeff (pops b) (map (fun _ => KAny) (pushes b)) (tneed b) (match tset b with None => None | _ => Some false end))
  else None.

(** one builder call *)
Definition one_arg (a : carg) : option bool :=     (* Some true: uses the captured text; Some false: a one-character constant *)
  match a with AText => Some true | AConst [_] => Some false | _ => None end.
Definition call_eff (c : bcall * carg) : option eff :=
  match fst c with
  | CAddName | CAddDot | CAddPredicate | CAddStateChange | CAddNil | CAddAction => Some (mkeff [] [KAny] false None)
  | CAddHexaCharacter | CAddOctalCharacter => Some (mkeff [] [KChr] false None)
  | CAddCharacter => match one_arg (snd c) with Some t => Some (mkeff [] [KChr] t None) | None => None end
  | CAddDoubleCharacter => match one_arg (snd c) with Some t => Some (mkeff [] [KAny] t None) | None => None end
  | CAddAlternate | CAddSequence => Some (mkeff [KAny; KAny] [KAny] false None)
  | CAddRange | CAddDoubleRange => Some (mkeff [KChr; KChr] [KAny] false None)
  | CAddPeekFor | CAddPeekNot | CAddQuery | CAddStar | CAddPlus | CAddPush => Some (mkeff [KAny] [KAny] false None)
  | CAddComment | CAddSpace | CAddPackage | CAddImportAlias | CAddImport => Some id_eff
  | CAddPeg | CAddState | CAddRule | CAddExpression => None
  end.
Fixpoint calls_eff (l : list (bcall * carg)) : option eff :=
  match l with
  | [] => Some id_eff
  | c :: l' => match call_eff c, calls_eff l' with Some a, Some b => compose a b | _, _ => None end
  end.

(** an expression that consumes exactly one character when it succeeds *)
Fixpoint one (e : expr) : bool :=
  match e with
  | EDot | EChar _ | ERange _ _ => true
  | EAlt es => match es with [] => false | _ => forallb one es end
  | _ => false
  end.

Section Infer.
Variable g : grammar.
Variable ptx : nat.
Variable acts : list (list (bcall * carg)).
Variable tab : nat -> option eff.

Fixpoint infer (e : expr) : option eff :=
  match e with
  | EDot | EChar _ | ERange _ _ | EPred _ | EState _ | EAct _ | ENil => Some id_eff
  | EName r =>
      if Nat.eqb r ptx then None else
      match nth_error g r with
      | Some (RBody _) => tab r
      | Some (RAct k) => calls_eff (nth k acts [])
      | _ => None
      end
  | ESeq es => fold_right (fun x acc => match infer x, acc with Some a, Some b => compose a b | _, _ => None end) (Some id_eff) es
  | EAlt es =>
      match es with
      | [] => None
      | x :: es' => fold_left (fun acc y => match acc, infer y with Some a, Some b => join a b | _, _ => None end) es' (infer x)
      end
  | EAnd _ | ENot _ => Some id_eff
  | EQuery e1 => match infer e1 with Some a => join a id_eff | None => None end
  | EStar e1 => match infer e1 with Some a => star_eff a | None => None end
  | EPlus e1 => match infer e1 with Some a => match star_eff a with Some s => compose a s | None => None end | None => None end
  | EPush e1 => match infer e1 with Some a => Some (mkeff (pops a) (pushes a) (tneed a) (Some (one e1))) | None => None end
  | ESwitch _ _ => None
  end.
End Infer.

Definition eff_eqb (a b : eff) : bool :=
  (kinds_eqb (pops a) (pops b) && kinds_eqb (pushes a) (pushes b) && Bool.eqb (tneed a) (tneed b) &&
   match tset a, tset b with None, None => true | Some x, Some y => Bool.eqb x y | _, _ => false end)%bool.

(** * what an effect means *)
Definition chr (x : expr) : bool := match x with EChar _ => true | _ => false end.
Definition fits (k : kind) (x : expr) : bool := match k with KAny => true | KChr => chr x end.
Definition matches (ks : list kind) (xs : list expr) : Prop := Forall2 (fun k x => fits k x = true) ks xs.

Lemma sat_fits h k x : sat h k = true -> fits h x = true -> fits k x = true.
Proof. destruct h, k; cbn; auto; discriminate. Qed.
Lemma matches_app a b xs ys : matches a xs -> matches b ys -> matches (a ++ b) (xs ++ ys).
Proof. apply Forall2_app. Qed.
Lemma matches_nil_l xs : matches [] xs -> xs = [].
Proof. intros H. inv H. reflexivity. Qed.
Lemma matches_length ks xs : matches ks xs -> length ks = length xs.
Proof. induction 1; cbn; congruence. Qed.

Lemma consume_sound need : forall have extra remain ys zs,
  consume need have = Some (extra, remain) -> matches have ys -> matches extra zs ->
  exists ys1 ys2, ys = ys1 ++ ys2 /\ matches need (ys1 ++ zs) /\ matches remain ys2 /\ (zs = [] \/ ys2 = []).
Proof.
  induction need as [|k need IH]; intros have extra remain ys zs H Hy Hz.
  - cbn in H. inv H. apply matches_nil_l in Hz. subst zs. exists [], ys. repeat split; auto. constructor.
  - destruct have as [|h have].
    + cbn in H. inv H. inv Hy. exists [], []. repeat split; auto. constructor.
    + cbn [consume] in H. destruct (sat h k) eqn:Es; [|discriminate]. inv Hy.
      match goal with Hf : fits h ?y = true, Hr : Forall2 _ have ?l |- _ =>
        destruct (IH _ _ _ _ _ H Hr Hz) as (ys1 & ys2 & E & M1 & M2 & D); exists (y :: ys1), ys2; subst l;
        split; [reflexivity|]; split; [constructor; [eapply sat_fits; eassumption|exact M1]|]; split; assumption end.
Qed.

Section Sem.
Variable nm : list rune -> nat.
Variable ak : list rune -> nat.
Variable buf : list rune.
Variable penv : nat -> nat -> bool.
Notation G := pegpeg_d.
Notation PTX := pegpeg_d_ptx.
Notation ev := (peg_ev G PTX buf penv).
Notation tr := (tr G PTX buf).
Notation sub := (sub buf).
Notation frun := (frun nm ak).
Notation fstep := (fstep nm ak).

Definition tl1 (t : nat * nat) : Prop := length (sub t) = 1.
Definition tpost (o : option bool) (t t' : nat * nat) : Prop :=
  match o with None => t' = t | Some true => tl1 t' | Some false => True end.

(** the calls [cs], run on any builder state whose expression stack has nodes fitting [ps] on top, go through and
    leave nodes fitting [qs] in their place; the rest of the stack and the file-level state are untouched *)
Definition CSem (cs : list call) (ps qs : list kind) : Prop :=
  forall s xs rest, stk s = xs ++ rest -> matches ps xs ->
  exists s' ys, frun cs s = Some s' /\ stk s' = ys ++ rest /\ matches qs ys /\ pend s' = pend s /\ pegn s' = pegn s /\
                (exists more, back s' = back s ++ more).

Definition Sem (f : list dt) (e : eff) : Prop :=
  forall t, (tneed e = true -> tl1 t) ->
    CSem (calls (fst (tr f t))) (pops e) (pushes e) /\ tpost (tset e) t (snd (tr f t)).

Lemma frun_app a b s : frun (a ++ b) s = match frun a s with Some s' => frun b s' | None => None end.
Proof. revert s. induction a as [|c a IH]; intros s; cbn [app BridgeDefs.frun]; [reflexivity|]. destruct (fstep s c); [apply IH|reflexivity]. Qed.

Lemma CSem_nil : CSem [] [] [].
Proof. intros s xs rest E M. apply matches_nil_l in M. subst xs. exists s, []. repeat split; auto; [constructor|exists []; rewrite app_nil_r; reflexivity]. Qed.

Lemma CSem_compose cs1 cs2 p1 q1 p2 q2 extra remain :
  CSem cs1 p1 q1 -> CSem cs2 p2 q2 -> consume p2 q1 = Some (extra, remain) ->
  CSem (cs1 ++ cs2) (p1 ++ extra) (q2 ++ remain).
Proof.
  intros H1 H2 Hc s xs rest E M.
  destruct (Forall2_app_inv_l _ _ M) as (xs1 & zs & M1 & Mz & Exs). subst xs. rewrite <- app_assoc in E.
  destruct (H1 s xs1 (zs ++ rest) E M1) as (s1 & ys & R1 & E1 & My & P1 & G1 & (m1 & B1)).
  destruct (consume_sound _ _ _ _ _ _ Hc My Mz) as (ys1 & ys2 & Ey & Mn & Mr & D).
  assert (E1' : stk s1 = (ys1 ++ zs) ++ (ys2 ++ rest)).
  { rewrite E1, Ey. destruct D as [->| ->]; rewrite ?app_nil_r, <- ?app_assoc; reflexivity. }
  destruct (H2 s1 _ _ E1' Mn) as (s2 & ws & R2 & E2 & Mw & P2 & G2 & (m2 & B2)).
  exists s2, (ws ++ ys2). rewrite frun_app, R1. split; [exact R2|]. split; [rewrite E2, <- app_assoc; reflexivity|].
  split; [apply matches_app; assumption|]. split; [congruence|]. split; [congruence|]. exists (m1 ++ m2). rewrite B2, B1, app_assoc. reflexivity.
Qed.

Lemma matches_weaken qs : forall rs ys, matches qs ys -> length qs = length rs -> forallb (fun hn : kind * kind => sat (fst hn) (snd hn)) (combine qs rs) = true -> matches rs ys.
Proof.
  induction qs as [|q qs IH]; intros [|r rs] ys M L F; try discriminate; inv M; constructor.
  - cbn in F. apply andb_true_iff in F. destruct F as [F _]. eapply sat_fits; eassumption.
  - cbn in F. apply andb_true_iff in F. destruct F as [_ F]. apply IH; auto.
Qed.
Lemma kmeets_weaken a : forall b r, kmeets a b = Some r ->
  length a = length r /\ forallb (fun hn : kind * kind => sat (fst hn) (snd hn)) (combine a r) = true /\
  length b = length r /\ forallb (fun hn : kind * kind => sat (fst hn) (snd hn)) (combine b r) = true.
Proof.
  induction a as [|x a IH]; intros [|y b] r H; cbn in H; try discriminate; [inv H; repeat split; reflexivity|].
  destruct (kmeets a b) as [r'|] eqn:E; [|discriminate]. inv H. destruct (IH _ _ E) as (L1 & F1 & L2 & F2).
  cbn. rewrite L1, L2, F1, F2. repeat split; try reflexivity; destruct x, y; reflexivity.
Qed.
Lemma kinds_eqb_eq a : forall b, kinds_eqb a b = true -> a = b.
Proof.
  induction a as [|x a IH]; intros [|y b] H; cbn in H; try discriminate; [reflexivity|].
  apply andb_true_iff in H. destruct H as [H1 H2]. rewrite (IH _ H2). destruct x, y; try discriminate; reflexivity.
Qed.

Lemma CSem_weaken cs p q r : CSem cs p q -> length q = length r -> forallb (fun hn : kind * kind => sat (fst hn) (snd hn)) (combine q r) = true -> CSem cs p r.
Proof.
  intros H L F s xs rest E M. destruct (H s xs rest E M) as (s' & ys & R & E' & My & P & Gn & B).
  exists s', ys. repeat split; auto. eapply matches_weaken; eassumption.
Qed.

Lemma tpost_meet a b t t' : tpost a t t' -> tpost (tmeet a b) t t'.
Proof. destruct a as [[|]|], b as [[|]|]; cbn; auto. Qed.
Lemma tpost_meet_r a b t t' : tpost b t t' -> tpost (tmeet a b) t t'.
Proof. destruct a as [[|]|], b as [[|]|]; cbn; auto. Qed.

Lemma CSem_frame cs p q ks : CSem cs p q -> CSem cs (p ++ ks) (q ++ ks).
Proof.
  intros H s xs rest E M. destruct (Forall2_app_inv_l _ _ M) as (xs1 & xs2 & M1 & M2 & ->). rewrite <- app_assoc in E.
  destruct (H s xs1 (xs2 ++ rest) E M1) as (s' & ys & R & E' & My & P & Gn & B).
  exists s', (ys ++ xs2). rewrite <- app_assoc. repeat split; auto. apply matches_app; assumption.
Qed.
Lemma Sem_lift f a ks : Sem f a -> Sem f (lift a ks).
Proof. intros H t Ht. destruct (H t Ht) as [C T0]. split; [apply CSem_frame; exact C|exact T0]. Qed.

Lemma Sem_join_l f a b c : Sem f a -> join a b = Some c -> Sem f c.
Proof.
  intros H J. unfold join in J. apply (Sem_lift _ _ (skipn (length (pops a)) (pops b))) in H.
  set (a' := lift a (skipn (length (pops a)) (pops b))) in *. set (b' := lift b (skipn (length (pops b)) (pops a))) in *.
  destruct (kinds_eqb (pops a') (pops b')) eqn:Ep; [|discriminate].
  destruct (kmeets (pushes a') (pushes b')) as [ps|] eqn:Ek; [|discriminate]. inv J. intros t Ht. cbn [tneed pops pushes tset] in *.
  destruct (H t) as [C Tp]; [intros X; apply Ht; change (tneed a') with (tneed a) in X; rewrite X; reflexivity|].
  destruct (kmeets_weaken _ _ _ Ek) as (L1 & F1 & _ & _).
  split; [eapply CSem_weaken; eassumption|apply tpost_meet; exact Tp].
Qed.
Lemma Sem_join_r f a b c : Sem f b -> join a b = Some c -> Sem f c.
Proof.
  intros H J. unfold join in J. apply (Sem_lift _ _ (skipn (length (pops b)) (pops a))) in H.
  set (a' := lift a (skipn (length (pops a)) (pops b))) in *. set (b' := lift b (skipn (length (pops b)) (pops a))) in *.
  destruct (kinds_eqb (pops a') (pops b')) eqn:Ep; [|discriminate]. apply kinds_eqb_eq in Ep.
  destruct (kmeets (pushes a') (pushes b')) as [ps|] eqn:Ek; [|discriminate]. inv J. intros t Ht. cbn [tneed pops pushes tset] in *.
  destruct (H t) as [C Tp]; [intros X; apply Ht; change (tneed b') with (tneed b) in X; rewrite X; apply orb_true_r|].
  destruct (kmeets_weaken _ _ _ Ek) as (_ & _ & L2 & F2). unfold a', b' in *. cbn [lift pops pushes] in *. rewrite Ep.
  split; [eapply CSem_weaken; eassumption|apply tpost_meet_r; exact Tp].
Qed.

Lemma Sem_nil : Sem [] id_eff.
Proof. intros t _. rewrite tr_nil. cbn. split; [apply CSem_nil|reflexivity]. Qed.

Lemma Sem_app f1 f2 a b c : Sem f1 a -> Sem f2 b -> compose a b = Some c -> Sem (f1 ++ f2) c.
Proof.
  intros H1 H2 Hc. unfold compose in Hc. destruct (consume (pops b) (pushes a)) as [[extra remain]|] eqn:Ec; [|discriminate].
  destruct (tneed b && match tset a with Some false => true | _ => false end)%bool eqn:Eb; [discriminate|]. inv Hc.
  intros t Ht. cbn [tneed pops pushes tset] in *.
  destruct (H1 t) as [C1 T1]; [intros X; apply Ht; rewrite X; reflexivity|].
  destruct (tr f1 t) as [e1 t1] eqn:E1. cbn [fst snd] in *.
  destruct (H2 t1) as [C2 T2].
  { intros X. rewrite X in *. cbn [andb] in *. destruct (tset a) as [[|]|]; cbn [tpost] in T1; [exact T1|discriminate|].
    subst t1. apply Ht. rewrite orb_true_r. reflexivity. }
  destruct (tr f2 t1) as [e2 t2] eqn:E2. cbn [fst snd] in *.
  rewrite (tr_app _ _ _ _ _ _ _ _ _ _ E1 E2). cbn [fst snd]. rewrite calls_app.
  split; [eapply CSem_compose; eassumption|].
  destruct (tset b) as [[|]|]; cbn [tpost] in *; auto. subst t2. exact T1.
Qed.

(** ** one call *)
Lemma matches1 k xs : matches [k] xs -> exists x, xs = [x] /\ fits k x = true.
Proof. intros H. inv H. match goal with H : Forall2 _ [] _ |- _ => inv H end. eauto. Qed.
Lemma matches2 k1 k2 xs : matches [k1; k2] xs -> exists x y, xs = [x; y] /\ fits k1 x = true /\ fits k2 y = true.
Proof.
  intros H. inversion H as [|a b l l' Fx Hr]; subst. pose proof (matches1 _ _ Hr) as (y & -> & F). eauto.
Qed.
Lemma chr_inv x : chr x = true -> exists c, x = EChar c.
Proof. destruct x; try discriminate. eauto. Qed.

Lemma frun1 c s s' : fstep s c = Some s' -> frun [c] s = Some s'.
Proof. intros H. cbn [BridgeDefs.frun]. rewrite H. reflexivity. Qed.

Ltac push_one :=
  intros s xs rest E M; apply matches_nil_l in M; subst xs; cbn [app] in E;
  eexists; eexists (_ :: nil); split; [apply frun1; unfold BridgeDefs.fstep; cbn [bop_of fst snd bstep]; reflexivity|];
  cbn [stk pend pegn back app]; rewrite E; repeat split; try (exists []; rewrite app_nil_r; reflexivity); constructor; [reflexivity|constructor].
Ltac unary :=
  intros s xs rest E M; apply matches1 in M; destruct M as (x & -> & _); cbn [app] in E;
  eexists; eexists (_ :: nil); split; [apply frun1; unfold BridgeDefs.fstep; cbn [bop_of fst snd bstep]; rewrite E; reflexivity|];
  cbn [stk pend pegn back app]; repeat split; try (exists []; rewrite app_nil_r; reflexivity); constructor; [reflexivity|constructor].
Ltac binary :=
  intros s xs rest E M; apply matches2 in M; destruct M as (x & y & -> & _ & _); cbn [app] in E;
  eexists; eexists (_ :: nil); split; [apply frun1; unfold BridgeDefs.fstep; cbn [bop_of fst snd bstep]; rewrite E; reflexivity|];
  cbn [stk pend pegn back app]; repeat split; try (exists []; rewrite app_nil_r; reflexivity); constructor; [reflexivity|constructor].
Ltac range2 :=
  intros s xs rest E M; apply matches2 in M; destruct M as (x & y & -> & Fx & Fy); cbn [fits] in Fx, Fy;
  apply chr_inv in Fx; apply chr_inv in Fy; destruct Fx as [cx ->]; destruct Fy as [cy ->]; cbn [app] in E;
  eexists; eexists (_ :: nil); split; [apply frun1; unfold BridgeDefs.fstep; cbn [bop_of fst snd bstep]; rewrite E; reflexivity|];
  cbn [stk pend pegn back app]; repeat split; try (exists []; rewrite app_nil_r; reflexivity); constructor; [reflexivity|constructor].
Ltac backonly :=
  intros s xs rest E M; apply matches_nil_l in M; subst xs; cbn [app] in E;
  eexists; exists nil; split; [apply frun1; unfold BridgeDefs.fstep; cbn [bop_of fst snd]; reflexivity|];
  cbn [stk pend pegn back app push_back]; repeat split; [exact E|constructor|eexists; reflexivity].

Lemma call_sem bc a e t : call_eff (bc, a) = Some e -> (tneed e = true -> tl1 t) ->
  CSem [(bc, arg_of a (sub t))] (pops e) (pushes e) /\ tset e = None.
Proof.
  intros H Ht. unfold call_eff in H. cbn [fst snd] in H.
  destruct bc; try discriminate; try (inv H; cbn [pops pushes tset]; split; [|reflexivity]);
    try solve [push_one | unary | binary | range2 | backonly].
  - (* AddCharacter *)
    destruct (one_arg a) as [u|] eqn:Ea; [|discriminate]. inv H. cbn [pops pushes tset tneed] in *. split; [|reflexivity].
    assert (Harg : exists c, arg_of a (sub t) = [c]).
    { destruct a as [| |l]; try discriminate.
      - inv Ea. specialize (Ht eq_refl). unfold tl1 in Ht. cbn [arg_of]. destruct (sub t) as [|c [|]]; try discriminate. eauto.
      - cbn [one_arg] in Ea. destruct l as [|c [|]]; try discriminate. cbn [arg_of]. eauto. }
    destruct Harg as [c ->]. push_one.
  - (* AddDoubleCharacter *)
    destruct (one_arg a) as [u|] eqn:Ea; [|discriminate]. inv H. cbn [pops pushes tset tneed] in *. split; [|reflexivity].
    assert (Harg : exists c, arg_of a (sub t) = [c]).
    { destruct a as [| |l]; try discriminate.
      - inv Ea. specialize (Ht eq_refl). unfold tl1 in Ht. cbn [arg_of]. destruct (sub t) as [|c [|]]; try discriminate. eauto.
      - cbn [one_arg] in Ea. destruct l as [|c [|]]; try discriminate. cbn [arg_of]. eauto. }
    destruct Harg as [c ->]. push_one.
Qed.

Lemma calls_sem l : forall e t, calls_eff l = Some e -> (tneed e = true -> tl1 t) ->
  CSem (map (fun ca : bcall * carg => (fst ca, arg_of (snd ca) (sub t))) l) (pops e) (pushes e) /\ tset e = None.
Proof.
  induction l as [|[bc a] l IH]; intros e t H Ht; cbn [calls_eff map] in *.
  - inv H. split; [apply CSem_nil|reflexivity].
  - destruct (call_eff (bc, a)) as [ea|] eqn:Ea; [|discriminate]. destruct (calls_eff l) as [eb|] eqn:Eb; [|discriminate].
    unfold compose in H. destruct (consume (pops eb) (pushes ea)) as [[extra remain]|] eqn:Ec; [|discriminate].
    destruct (tneed eb && match tset ea with Some false => true | _ => false end)%bool; [discriminate|]. inv H. cbn [pops pushes tneed tset] in *.
    destruct (call_sem bc a ea t Ea) as [C1 T1]; [intros X; apply Ht; rewrite X; reflexivity|].
    destruct (IH eb t eq_refl) as [C2 T2]; [intros X; apply Ht; rewrite X, T1, orb_true_r; reflexivity|].
    split; [|rewrite T2, T1; reflexivity]. cbn [fst snd].
    change ((bc, arg_of a (sub t)) :: map (fun ca : bcall * carg => (fst ca, arg_of (snd ca) (sub t))) l)
      with ([(bc, arg_of a (sub t))] ++ map (fun ca : bcall * carg => (fst ca, arg_of (snd ca) (sub t))) l).
    exact (CSem_compose _ _ _ _ _ _ _ _ C1 C2 Ec).
Qed.

(** ** nodes of the derivation *)
Lemma Sem_act r k p e : nth_error G r = Some (RAct k) -> r <> PTX -> calls_eff (nth k pegpeg_calls []) = Some e -> Sem [Node r p p []] e.
Proof.
  intros Hr Hn He t Ht. rewrite (tr_node_act _ _ _ _ _ _ _ Hr Hn). cbn [fst snd].
  destruct (calls_sem _ e t He Ht) as [C T0]. unfold calls. cbn [flat_map]. rewrite app_nil_r. unfold calls1. cbn [fst snd].
  split; [exact C|rewrite T0; reflexivity].
Qed.
Lemma Sem_body r b p p' f e : nth_error G r = Some (RBody b) -> r <> PTX -> Sem f e -> Sem [Node r p p' f] e.
Proof. intros Hr Hn H t Ht. rewrite (tr_node_body _ _ _ _ _ _ _ _ _ Hr Hn). exact (H t Ht). Qed.

Lemma tl1_one p : S p <= length buf -> tl1 (p, S p).
Proof.
  intros H. unfold tl1, PegRel.sub. cbn [fst snd]. replace (S p - p) with 1 by lia.
  rewrite firstn_length, skipn_length. lia.
Qed.
Lemma Sem_push p p' f a (o : bool) : Sem f a -> (o = true -> p' = S p /\ S p <= length buf) ->
  Sem [Node PTX p p' f] (mkeff (pops a) (pushes a) (tneed a) (Some o)).
Proof.
  intros H Ho t Ht. cbn [tneed pops pushes tset] in *. rewrite tr_node_push. cbn [fst snd].
  destruct (H t Ht) as [C _]. split; [exact C|]. destruct o; cbn [tpost]; [|exact I].
  destruct (Ho eq_refl) as [-> L]. apply tl1_one. exact L.
Qed.

(** ** loops *)
Lemma consume_loop ps : forall qs, length ps = length qs -> forallb (fun hn : kind * kind => sat (fst hn) (snd hn)) (combine qs ps) = true ->
  consume ps qs = Some ([], []).
Proof.
  induction ps as [|k ps IH]; intros [|h qs] L F; try discriminate; [reflexivity|].
  cbn in F. apply andb_true_iff in F. destruct F as [F1 F2]. cbn [consume]. rewrite F1. apply IH; [cbn in L; lia|exact F2].
Qed.
Lemma star_eff_inv b se : star_eff b = Some se ->
  length (pops b) = length (pushes b) /\ forallb (fun hn : kind * kind => sat (fst hn) (snd hn)) (combine (pushes b) (pops b)) = true /\
  (tneed b = true -> tset b <> Some false) /\
  se = mkeff (pops b) (map (fun _ => KAny) (pushes b)) (tneed b) (match tset b with None => None | _ => Some false end).
Proof.
  unfold star_eff. intros H.
  destruct (Nat.eqb (length (pops b)) (length (pushes b))) eqn:E1; [|discriminate]. cbn [andb] in H.
  destruct (forallb _ _) eqn:E2; [|discriminate]. cbn [andb] in H.
  destruct (negb _) eqn:E3; [|discriminate]. inv H. apply Nat.eqb_eq in E1. repeat split; auto.
  intros X Y. rewrite X, Y in E3. discriminate.
Qed.
Lemma matches_any (ks : list kind) : forall xs, length ks = length xs -> matches (map (fun _ => KAny) ks) xs.
Proof. induction ks as [|k ks IH]; intros [|x xs] L; try discriminate; constructor; [reflexivity|apply IH; cbn in L; lia]. Qed.

Lemma Sem_star_nil b se : star_eff b = Some se -> Sem [] se.
Proof.
  intros H. destruct (star_eff_inv _ _ H) as (L & F & Tn & ->). intros t Ht. rewrite tr_nil. cbn [fst snd calls flat_map pops pushes tset].
  split; [|destruct (tset b); cbn; auto].
  intros s xs rest E M. exists s, xs. repeat split; auto; [|exists []; rewrite app_nil_r; reflexivity]. apply matches_any. rewrite <- L. apply matches_length. exact M.
Qed.
Lemma Sem_star_cons f1 f2 b se : star_eff b = Some se -> Sem f1 b -> Sem f2 se -> Sem (f1 ++ f2) se.
Proof.
  intros H H1 H2. destruct (star_eff_inv _ _ H) as (L & F & Tn & Ese). intros t Ht. subst se. cbn [tneed pops pushes tset] in *.
  destruct (H1 t Ht) as [C1 T1]. destruct (tr f1 t) as [e1 t1] eqn:E1. cbn [fst snd] in *.
  destruct (H2 t1) as [C2 T2].
  { cbn [tneed]. intros X. specialize (Tn X). specialize (Ht X). destruct (tset b) as [[|]|]; cbn [tpost] in T1; [exact T1|congruence|subst t1; exact Ht]. }
  destruct (tr f2 t1) as [e2 t2] eqn:E2. cbn [fst snd pops pushes tset] in *.
  rewrite (tr_app _ _ _ _ _ _ _ _ _ _ E1 E2). cbn [fst snd]. rewrite calls_app.
  split.
  - pose proof (CSem_compose _ _ _ _ _ _ _ _ C1 C2 (consume_loop _ _ L F)) as C. rewrite !app_nil_r in C. exact C.
  - destruct (tset b) as [[|]|]; cbn [tpost] in *; auto. congruence.
Qed.

(** ** soundness of the analysis *)
Section Sound.
Variable tab : nat -> option eff.
Notation infer := (infer G PTX pegpeg_calls tab).
(** the table is a fixed point: the effect declared for a rule is the effect inferred for its body *)
Hypothesis Hcons : forall r b x, nth_error G r = Some (RBody b) -> tab r = Some x -> infer b = Some x.

Lemma alt_ev_succ_in (F : expr -> nat -> option out) es : forall p p' f evs,
  alt_ev F es p = Some (Succ p' f, evs) -> exists y evs', In y es /\ F y p = Some (Succ p' f, evs').
Proof.
  induction es as [|y es IH]; intros p p' f evs H; cbn [alt_ev] in H; [discriminate|].
  destruct (F y p) as [[[|q fq] vq]|] eqn:E; try discriminate.
  - destruct es as [|z es']; [discriminate|].
    destruct (alt_ev F (z :: es') p) as [[r v2]|] eqn:E2; [|discriminate]. inv H.
    destruct (IH _ _ _ _ E2) as (y' & evs' & Hin & Hy). exists y', evs'. split; [right; exact Hin|exact Hy].
  - inv H. exists y, evs. split; [left; reflexivity|exact E].
Qed.

Lemma one_step n : forall e p p' f evs, one e = true -> ev n e p = Some (Succ p' f, evs) -> p' = S p /\ S p <= length buf.
Proof.
  induction n as [|n IH]; intros e p p' f evs Ho H; [discriminate|].
  assert (Hterm : forall okc, Some (term buf okc p) = Some (Succ p' f, evs) -> p' = S p /\ S p <= length buf).
  { intros okc Ht. unfold term in Ht. destruct (nth_error buf p) as [c|] eqn:En; [|discriminate].
    destruct (okc c); inv Ht. split; [reflexivity|]. apply Nat.le_succ_l. apply nth_error_Some. congruence. }
  destruct e; try discriminate; cbn [peg_ev] in H; try (eapply Hterm; exact H).
  cbn [one] in Ho. destruct es as [|x es]; [discriminate|].
  destruct (alt_ev_succ_in _ _ _ _ _ _ H) as (y & evs' & Hin & Hy).
  eapply IH; [|exact Hy]. exact (proj1 (forallb_forall _ _) Ho y Hin).
Qed.

Notation J := (fun acc y => match acc, infer y with Some a, Some b => join a b | _, _ => None end).
Lemma fold_join_none es : fold_left J es None = None.
Proof. induction es as [|y es IH]; [reflexivity|exact IH]. Qed.
Lemma fold_join_sound f es : forall acc x, fold_left J es acc = Some x ->
  (forall a, acc = Some a -> Sem f a -> Sem f x) /\
  (forall y, In y es -> exists ay, infer y = Some ay /\ (Sem f ay -> Sem f x)).
Proof.
  induction es as [|y es IH]; intros acc x H; cbn [fold_left] in H.
  - subst acc. split; [intros a E; inv E; auto|intros y []].
  - destruct acc as [a|]; [|rewrite fold_join_none in H; discriminate].
    destruct (infer y) as [b|] eqn:Ey; [|rewrite fold_join_none in H; discriminate].
    destruct (join a b) as [c|] eqn:Ej; [|rewrite fold_join_none in H; discriminate].
    destruct (IH _ _ H) as [I1 I2]. split.
    + intros a0 E S0. inv E. apply (I1 c eq_refl). eapply Sem_join_l; eassumption.
    + intros y0 [<-|Hin]; [|apply I2; exact Hin]. exists b. split; [exact Ey|]. intros Sb. apply (I1 c eq_refl). eapply Sem_join_r; eassumption.
Qed.

Theorem infer_sound n : forall e p p' f evs x, ev n e p = Some (Succ p' f, evs) -> infer e = Some x -> Sem f x.
Proof.
  induction n as [|n IH]; intros e p p' f evs x H Hi; [discriminate|].
  assert (Hterm : forall okc, Some (term buf okc p) = Some (Succ p' f, evs) -> f = []).
  { intros okc Ht. unfold term in Ht. destruct (nth_error buf p) as [c|]; [|discriminate]. destruct (okc c); inv Ht. reflexivity. }
  destruct e; cbn [peg_ev] in H; cbn [Safe.infer] in Hi.
  - rewrite (Hterm _ H). inv Hi. apply Sem_nil.
  - rewrite (Hterm _ H). inv Hi. apply Sem_nil.
  - rewrite (Hterm _ H). inv Hi. apply Sem_nil.
  - (* a rule *)
    destruct (Nat.eqb_spec r PTX) as [|Nr]; [discriminate|].
    destruct (nth_error G r) as [[b|k|]|] eqn:Er; try discriminate.
    + destruct (ev n b p) as [[[|q fq] vq]|] eqn:Eb; try discriminate. inv H.
      eapply Sem_body; [exact Er|exact Nr|]. eapply IH; [exact Eb|]. eapply Hcons; eassumption.
    + inv H. eapply Sem_act; eassumption.
  - destruct (penv k p); inv H. inv Hi. apply Sem_nil.
  - inv H. inv Hi. apply Sem_nil.
  - inv H. inv Hi. apply Sem_nil.
  - inv H. inv Hi. apply Sem_nil.
  - (* sequence *)
    clear Hterm. revert p p' f evs x H Hi. induction es as [|y es IHes]; intros p p' f evs x H Hi; cbn [seq_ev fold_right] in *.
    + inv H. inv Hi. apply Sem_nil.
    + destruct (ev n y p) as [[[|q fq] vq]|] eqn:Ey; try discriminate.
      destruct (seq_ev (ev n) es q) as [[[|q2 f2] v2]|] eqn:Es; try discriminate. inv H.
      destruct (Safe.infer G PTX pegpeg_calls tab y) as [a|] eqn:Ea; [|discriminate].
      match type of Hi with match ?X with _ => _ end = _ => destruct X as [b|] eqn:Eb; [|discriminate] end.
      eapply Sem_app; [eapply IH; eassumption|eapply IHes; [exact Es|reflexivity]|exact Hi].
  - (* choice *)
    destruct es as [|x0 es]; [discriminate|].
    destruct (alt_ev_succ_in _ _ _ _ _ _ H) as (y & evs' & Hin & Hy).
    destruct (fold_join_sound f es _ _ Hi) as [I1 I2].
    destruct Hin as [<-|Hin].
    + destruct (Safe.infer G PTX pegpeg_calls tab x0) as [a|] eqn:Ea; [|rewrite fold_join_none in Hi; discriminate].
      apply (I1 a eq_refl). eapply IH; eassumption.
    + destruct (I2 y Hin) as (ay & Ey & K). apply K. eapply IH; eassumption.
  - (* & *)
    destruct (ev n e p) as [[[|q fq] vq]|]; try discriminate. inv H. inv Hi. apply Sem_nil.
  - (* ! *)
    destruct (ev n e p) as [[[|q fq] vq]|]; try discriminate. inv H. inv Hi. apply Sem_nil.
  - (* ? *)
    destruct (Safe.infer G PTX pegpeg_calls tab e) as [a|] eqn:Ea; [|discriminate].
    destruct (ev n e p) as [[[|q fq] vq]|] eqn:Ee; try discriminate; inv H.
    + eapply Sem_join_r; [apply Sem_nil|exact Hi].
    + eapply Sem_join_l; [eapply IH; eassumption|exact Hi].
  - (* * *)
    destruct (Safe.infer G PTX pegpeg_calls tab e) as [a|] eqn:Ea; [|discriminate].
    destruct (ev n e p) as [[[|q fq] vq]|] eqn:Ee; try discriminate.
    + inv H. eapply Sem_star_nil; exact Hi.
    + destruct (ev n (EStar e) q) as [[[|q2 f2] v2]|] eqn:E2; try discriminate. inv H.
      eapply Sem_star_cons; [exact Hi|eapply IH; eassumption|]. eapply IH; [exact E2|]. cbn [Safe.infer]. rewrite Ea. exact Hi.
  - (* + *)
    destruct (Safe.infer G PTX pegpeg_calls tab e) as [a|] eqn:Ea; [|discriminate].
    destruct (star_eff a) as [se|] eqn:Es; [|discriminate].
    destruct (ev n e p) as [[[|q fq] vq]|] eqn:Ee; try discriminate.
    destruct (ev n (EStar e) q) as [[[|q2 f2] v2]|] eqn:E2; try discriminate. inv H.
    eapply Sem_app; [eapply IH; eassumption| |exact Hi]. eapply IH; [exact E2|]. cbn [Safe.infer]. rewrite Ea. exact Es.
  - (* < > *)
    destruct (Safe.infer G PTX pegpeg_calls tab e) as [a|] eqn:Ea; [|discriminate]. inv Hi.
    destruct (ev n e p) as [[[|q fq] vq]|] eqn:Ee; try discriminate. inv H.
    apply Sem_push; [eapply IH; eassumption|]. intros Ho. eapply one_step; eassumption.
  - discriminate.
Qed.

End Sound.

End Sem.

(** * the table for peg.peg's rule tree *)
Definition tab_step (guess : nat -> option (option eff)) (T : list (option eff)) : list (option eff) :=
  map (fun r => match guess r with
                | Some gs => gs
                | None => match nth_error pegpeg_d r with
                          | Some (RBody b) => infer pegpeg_d pegpeg_d_ptx pegpeg_calls (fun r' => nth r' T None) b
                          | _ => None
                          end
                end) (seq 0 (length pegpeg_d)).
Fixpoint iter {A} (n : nat) (f : A -> A) (x : A) : A := match n with O => x | S n => iter n f (f x) end.
(** two guesses break the cycles  Expression -> Sequence -> Prefix -> Suffix -> Primary -> Expression  and
    ActionBody -> ActionBody; like every entry they are checked below *)
Definition guess0 (r : nat) : option (option eff) :=
  if Nat.eqb r pr_Expression then Some (Some (mkeff [] [KAny] false (Some false)))
  else if Nat.eqb r pr_ActionBody then Some (Some id_eff) else None.
Definition eff_table : list (option eff) := iter 24 (tab_step guess0) (map (fun _ => None) pegpeg_d).
Definition eff_tab (r : nat) : option eff := nth r eff_table None.

Lemma eff_eqb_eq a b : eff_eqb a b = true -> a = b.
Proof.
  unfold eff_eqb. intros H. repeat (apply andb_true_iff in H; destruct H as [H ?]).
  destruct a as [pa qa na sa], b as [pb qb nb sb]. cbn [pops pushes tneed tset] in *.
  apply kinds_eqb_eq in H. match goal with X : kinds_eqb qa qb = true |- _ => apply kinds_eqb_eq in X; subst qb end. subst pb.
  match goal with X : Bool.eqb na nb = true |- _ => apply Bool.eqb_prop in X; subst nb end.
  destruct sa as [x|], sb as [y|]; try discriminate; [|reflexivity].
  match goal with X : Bool.eqb x y = true |- _ => apply Bool.eqb_prop in X; subst y end. reflexivity.
Qed.

Lemma eff_table_consistent : forall r b x, nth_error pegpeg_d r = Some (RBody b) -> eff_tab r = Some x ->
  infer pegpeg_d pegpeg_d_ptx pegpeg_calls eff_tab b = Some x.
Proof.
  assert (H : forallb (fun r => match nth_error pegpeg_d r, eff_tab r with
                                | Some (RBody b), Some x => match infer pegpeg_d pegpeg_d_ptx pegpeg_calls eff_tab b with Some y => eff_eqb x y | None => false end
                                | _, _ => true end) (seq 0 (length pegpeg_d)) = true) by (vm_compute; reflexivity).
  intros r b x Hr Hx. assert (L : r < length pegpeg_d) by (apply nth_error_Some; congruence).
  pose proof (proj1 (forallb_forall _ _) H r ltac:(apply in_seq; lia)) as E. cbv beta in E. rewrite Hr, Hx in E.
  destruct (infer pegpeg_d pegpeg_d_ptx pegpeg_calls eff_tab b) as [y|]; [|discriminate]. apply eff_eqb_eq in E. congruence.
Qed.

(** * every accepted text builds a grammar *)
Section Top.
Variable nm : list rune -> nat.
Variable ak : list rune -> nat.
Variable buf : list rune.
Variable penv : nat -> nat -> bool.
Notation G := pegpeg_d.
Notation PTX := pegpeg_d_ptx.
Notation ev := (peg_ev G PTX buf penv).
Notation tr := (tr G PTX buf).
Notation sub := (PegRel.sub buf).
Notation frun := (BridgeDefs.frun nm ak).
Notation infer := (infer G PTX pegpeg_calls eff_tab).
Notation Sem := (Sem nm ak buf).

Definition run (f : list dt) (t : nat * nat) (s : fstate) : option fstate := frun (calls (fst (tr f t))) s.

Lemma run_app f1 f2 t s : run (f1 ++ f2) t s = match run f1 t s with Some s1 => run f2 (snd (tr f1 t)) s1 | None => None end.
Proof.
  unfold run. destruct (tr f1 t) as [e1 t1] eqn:E1. destruct (tr f2 t1) as [e2 t2] eqn:E2.
  rewrite (tr_app _ _ _ _ _ _ _ _ _ _ E1 E2). cbn [fst snd]. rewrite calls_app, Safe.frun_app. rewrite E2. reflexivity.
Qed.

(** an expression whose effect needs nothing: its calls run in any state, push what the effect says *)
Lemma run_generic n e p p' f evs x : ev n e p = Some (Succ p' f, evs) -> infer e = Some x -> pops x = [] -> tneed x = false ->
  forall t s, exists s' ys, run f t s = Some s' /\ stk s' = ys ++ stk s /\ matches (pushes x) ys /\ pend s' = pend s /\ pegn s' = pegn s /\
                            (exists more, back s' = back s ++ more).
Proof.
  intros H Hi Hp Hn t s. pose proof (infer_sound nm ak buf penv eff_tab eff_table_consistent n e p p' f evs x H Hi t) as [C _]; [rewrite Hn; discriminate|].
  rewrite Hp in C. exact (C s [] (stk s) eq_refl ltac:(constructor)).
Qed.

Lemma seq_ev_cons_inv (F : expr -> nat -> option out) e es p p' f evs :
  seq_ev F (e :: es) p = Some (Succ p' f, evs) ->
  exists q f1 v1 f2 v2, F e p = Some (Succ q f1, v1) /\ seq_ev F es q = Some (Succ p' f2, v2) /\ f = f1 ++ f2.
Proof.
  cbn [seq_ev]. intros H. destruct (F e p) as [[[|q fq] vq]|] eqn:E; try discriminate.
  destruct (seq_ev F es q) as [[[|q2 f2] v2]|] eqn:E2; try discriminate. inv H. eauto 10.
Qed.
Lemma seq_ev_app_inv (F : expr -> nat -> option out) l1 : forall l2 p p' f evs,
  seq_ev F (l1 ++ l2) p = Some (Succ p' f, evs) ->
  exists q f1 v1 f2 v2, seq_ev F l1 p = Some (Succ q f1, v1) /\ seq_ev F l2 q = Some (Succ p' f2, v2) /\ f = f1 ++ f2.
Proof.
  induction l1 as [|e l1 IH]; intros l2 p p' f evs H; cbn [app] in H.
  - exists p, [], [], f, evs. cbn [seq_ev]. auto.
  - destruct (seq_ev_cons_inv _ _ _ _ _ _ _ H) as (q & f1 & v1 & f2 & v2 & H1 & H2 & ->).
    destruct (IH _ _ _ _ _ H2) as (q' & g1 & w1 & g2 & w2 & K1 & K2 & ->).
    exists q', (f1 ++ g1), (v1 ++ w1), g2, w2. cbn [seq_ev]. rewrite H1, K1. rewrite app_assoc. auto.
Qed.

(** the forest of an action rule, and the calls it makes *)
Lemma act_ev n r k p p' f evs : nth_error G r = Some (RAct k) -> ev n (EName r) p = Some (Succ p' f, evs) -> f = [Node r p p []].
Proof. intros Hr H. destruct n as [|n]; [discriminate|]. cbn [peg_ev] in H. rewrite Hr in H. inv H. reflexivity. Qed.
Lemma act_run r k p t s : nth_error G r = Some (RAct k) -> r <> PTX ->
  run [Node r p p []] t s = frun (map (fun ca : bcall * carg => (fst ca, arg_of (snd ca) (sub t))) (nth k pegpeg_calls [])) s /\
  snd (tr [Node r p p []] t) = t.
Proof.
  intros Hr Hn. unfold run. rewrite (tr_node_act _ _ _ _ _ _ _ Hr Hn). cbn [fst snd]. unfold calls. cbn [flat_map]. rewrite app_nil_r. auto.
Qed.

Lemma item_run0 n e p p' f evs x : ev n e p = Some (Succ p' f, evs) -> infer e = Some x -> pops x = [] -> tneed x = false -> pushes x = [] ->
  forall t s, exists s', run f t s = Some s' /\ stk s' = stk s /\ pend s' = pend s /\ pegn s' = pegn s /\ (exists more, back s' = back s ++ more).
Proof.
  intros H Hi Hp Hn Hq t s. destruct (run_generic n e p p' f evs x H Hi Hp Hn t s) as (s' & ys & R & E & M & P & Gn & B).
  rewrite Hq in M. apply matches_nil_l in M. subst ys. exists s'. auto.
Qed.
Lemma item_run1 n e p p' f evs x k : ev n e p = Some (Succ p' f, evs) -> infer e = Some x -> pops x = [] -> tneed x = false -> pushes x = [k] ->
  forall t s, exists s' y, run f t s = Some s' /\ stk s' = y :: stk s /\ pend s' = pend s /\ pegn s' = pegn s /\ (exists more, back s' = back s ++ more).
Proof.
  intros H Hi Hp Hn Hq t s. destruct (run_generic n e p p' f evs x H Hi Hp Hn t s) as (s' & ys & R & E & M & P & Gn & B).
  rewrite Hq in M. apply matches1 in M. destruct M as (y & -> & _). exists s', y. auto.
Qed.

Lemma run_app_ex f1 f2 t s s1 (Q : fstate -> Prop) : run f1 t s = Some s1 ->
  (exists s2, run f2 (snd (tr f1 t)) s1 = Some s2 /\ Q s2) -> exists s2, run (f1 ++ f2) t s = Some s2 /\ Q s2.
Proof. intros R1 (s2 & R2 & HQ). exists s2. rewrite run_app, R1. auto. Qed.

Lemma run_body r b p p' f t s : nth_error G r = Some (RBody b) -> r <> PTX -> run [Node r p p' f] t s = run f t s /\ snd (tr [Node r p p' f] t) = snd (tr f t).
Proof. intros Hr Hn. unfold run. rewrite (tr_node_body _ _ _ _ _ _ _ _ _ Hr Hn). auto. Qed.

(** one rule: AddRule, the expression's calls, AddExpression *)
Lemma def_run n p p' f evs : ev n (EName pr_Definition) p = Some (Succ p' f, evs) ->
  forall t s, stk s = [] -> pend s = None ->
  exists s' more name e, run f t s = Some s' /\ stk s' = [] /\ pend s' = None /\ pegn s' = pegn s /\ back s' = back s ++ more ++ [NRule name e].
Proof.
  intros H t s Hs Hp. destruct n as [|n]; [discriminate|]. cbn [peg_ev] in H.
  let b := eval vm_compute in (nth_error G pr_Definition) in
  lazymatch b with
  | Some (RBody (ESeq [?i; ?a1; ?la; ?ex; ?a2; ?lk])) =>
      assert (Eb : nth_error G pr_Definition = Some (RBody (ESeq [i; a1; la; ex; a2; lk]))) by (vm_compute; reflexivity);
      pose (ei := i); pose (ea1 := a1); pose (ela := la); pose (eex := ex); pose (ea2 := a2); pose (elk := lk)
  end.
  rewrite Eb in H. destruct (ev n _ p) as [[[|q fq] vq]|] eqn:Ebody; try discriminate. inv H.
  destruct (run_body _ _ p p' fq t s Eb ltac:(vm_compute; discriminate)) as [-> _].
  destruct n as [|n]; [discriminate|]. cbn [peg_ev] in Ebody.
  destruct (seq_ev_cons_inv _ _ _ _ _ _ _ Ebody) as (q1 & f1 & v1 & r1 & w1 & H1 & K1 & ->).
  destruct (seq_ev_cons_inv _ _ _ _ _ _ _ K1) as (q2 & f2 & v2 & r2 & w2 & H2 & K2 & ->).
  destruct (seq_ev_cons_inv _ _ _ _ _ _ _ K2) as (q3 & f3 & v3 & r3 & w3 & H3 & K3 & ->).
  destruct (seq_ev_cons_inv _ _ _ _ _ _ _ K3) as (q4 & f4 & v4 & r4 & w4 & H4 & K4 & ->).
  destruct (seq_ev_cons_inv _ _ _ _ _ _ _ K4) as (q5 & f5 & v5 & r5 & w5 & H5 & K5 & ->).
  destruct (seq_ev_cons_inv _ _ _ _ _ _ _ K5) as (q6 & f6 & v6 & r6 & w6 & H6 & K6 & ->).
  cbn [seq_ev] in K6. inv K6.
  (* the name *)
  destruct (item_run0 _ _ _ _ _ _ _ H1 ltac:(vm_compute; reflexivity) eq_refl eq_refl eq_refl t s) as (s1 & R1 & S1 & P1 & G1 & (m1 & B1)).
  (* AddRule *)
  match type of H2 with ev _ (EName ?r) _ = _ => assert (Er2 : exists k, nth_error G r = Some (RAct k) /\ nth k pegpeg_calls [] = [(CAddRule, AText)] /\ r <> PTX) by (eexists; split; [|split]; vm_compute; (reflexivity || discriminate)) end.
  destruct Er2 as (k2 & Er2 & Ec2 & Np2). pose proof (act_ev _ _ _ _ _ _ _ Er2 H2) as ->.
  (* the arrow *)
  set (t1 := snd (tr f1 t)).
  destruct (act_run _ _ q1 t1 s1 Er2 Np2) as [A2 T2]. rewrite Ec2 in A2. cbn [map fst snd arg_of] in A2.
  lazymatch type of A2 with run ?F _ _ = _ => assert (R2 : run F t1 s1 = Some {| back := back s1; pend := Some (sub t1); stk := []; pegn := pegn s1 |}) end.
  { rewrite A2. cbn [BridgeDefs.frun]. unfold BridgeDefs.fstep. cbn [bop_of fst snd]. rewrite P1, Hp, S1, Hs. reflexivity. }
  set (s2 := {| back := back s1; pend := Some (sub t1); stk := []; pegn := pegn s1 |}) in *.
  destruct (item_run0 _ _ _ _ _ _ _ H3 ltac:(vm_compute; reflexivity) eq_refl eq_refl eq_refl t1 s2) as (s3 & R3 & S3 & P3 & G3 & (m3 & B3)).
  (* the expression *)
  set (t3 := snd (tr f3 t1)).
  destruct (item_run1 _ _ _ _ _ _ _ _ H4 ltac:(vm_compute; reflexivity) eq_refl eq_refl eq_refl t3 s3) as (s4 & y & R4 & S4 & P4 & G4 & (m4 & B4)).
  (* AddExpression *)
  match type of H5 with ev _ (EName ?r) _ = _ => assert (Er5 : exists k, nth_error G r = Some (RAct k) /\ nth k pegpeg_calls [] = [(CAddExpression, ANone)] /\ r <> PTX) by (eexists; split; [|split]; vm_compute; (reflexivity || discriminate)) end.
  destruct Er5 as (k5 & Er5 & Ec5 & Np5). pose proof (act_ev _ _ _ _ _ _ _ Er5 H5) as ->.
  set (t4 := snd (tr f4 t3)).
  destruct (act_run _ _ q4 t4 s4 Er5 Np5) as [A5 T5]. rewrite Ec5 in A5. cbn [map fst snd arg_of] in A5.
  lazymatch type of A5 with run ?F _ _ = _ => assert (R5 : run F t4 s4 = Some {| back := back s4 ++ [NRule (sub t1) y]; pend := None; stk := []; pegn := pegn s4 |}) end.
  { rewrite A5. cbn [BridgeDefs.frun]. unfold BridgeDefs.fstep. cbn [bop_of fst snd]. rewrite P4, P3, S4, S3. reflexivity. }
  (* the lookahead leaves no trace *)
  assert (E6 : f6 = []).
  { destruct n as [|n]; [discriminate|]. cbn [peg_ev] in H6. destruct (ev n _ q5) as [[[|? ?] ?]|]; try discriminate. inv H6. reflexivity. }
  subst f6. rewrite !app_nil_r.
  eexists. exists (m1 ++ m3 ++ m4), (sub t1), y.
  rewrite run_app, R1. fold t1. rewrite run_app, R2, T2. rewrite run_app, R3. fold t3. rewrite run_app, R4. fold t4. rewrite R5.
  split; [reflexivity|]. cbn [stk pend pegn back]. split; [reflexivity|]. split; [reflexivity|]. split.
  - rewrite G4, G3. cbn [pegn s2]. exact G1.
  - rewrite B4, B3. cbn [back s2]. rewrite B1, <- !app_assoc. reflexivity.
Qed.

Lemma defs_run n : forall p p' f evs, ev n (EStar (EName pr_Definition)) p = Some (Succ p' f, evs) ->
  forall t s, stk s = [] -> pend s = None ->
  exists s' more, run f t s = Some s' /\ stk s' = [] /\ pend s' = None /\ pegn s' = pegn s /\ back s' = back s ++ more.
Proof.
  induction n as [|n IH]; intros p p' f evs H t s Hs Hp; [discriminate|]. cbn [peg_ev] in H.
  destruct (ev n (EName pr_Definition) p) as [[[|q fq] vq]|] eqn:Ed; try discriminate.
  - inv H. exists s, []. unfold run. rewrite tr_nil. cbn. rewrite app_nil_r. auto.
  - destruct (ev n (EStar (EName pr_Definition)) q) as [[[|q2 f2] v2]|] eqn:E2; try discriminate. inv H.
    destruct (def_run _ _ _ _ _ Ed t s Hs Hp) as (s1 & m1 & name & e & R1 & S1 & P1 & G1 & B1).
    destruct (IH _ _ _ _ E2 (snd (tr fq t)) s1 S1 P1) as (s2 & m2 & R2 & S2 & P2 & G2 & B2).
    exists s2, ((m1 ++ [NRule name e]) ++ m2). rewrite run_app, R1, R2. repeat split; try congruence.
    rewrite B2, B1, <- !app_assoc. reflexivity.
Qed.

Lemma seq_as_expr n es p : seq_ev (ev n) es p = ev (S n) (ESeq es) p.
Proof. reflexivity. Qed.

(** Whatever text the rule Grammar accepts - written as Reader/Defs.v describes or not -, the builder calls its
    actions make never pop an empty stack and never misuse a node; they leave a package name, the parser type
    with its state, at least one rule, and nothing half-built. *)
Theorem accepted_text_builds n p f evs : ev n (EName pr_Grammar) 0 = Some (Succ p f, evs) ->
  exists s', run f (0, 0) finit = Some s' /\ stk s' = [] /\ pend s' = None /\ pegn s' = None /\
    (exists pk, In (NPackage pk) (back s')) /\ (exists name st, In (NPeg name st) (back s')) /\ (exists name e, In (NRule name e) (back s')).
Proof.
  intros H. destruct n as [|n]; [discriminate|]. cbn [peg_ev] in H.
  let b := eval vm_compute in (nth_error G pr_Grammar) in
  lazymatch b with
  | Some (RBody (ESeq [?x1; ?x2; ?x3; ?x4; ?a1; ?y1; ?y2; ?y3; ?y4; ?a2; ?z1; ?z2; ?z3; ?a3; ?d; ?eof])) =>
      assert (Eb : nth_error G pr_Grammar = Some (RBody (ESeq ([x1; x2; x3; x4] ++ [a1] ++ [y1; y2; y3; y4] ++ [a2] ++ [z1; z2; z3] ++ [a3] ++ [d; eof]))))
        by (vm_compute; reflexivity)
  end.
  rewrite Eb in H. destruct (ev n _ 0) as [[[|q fq] vq]|] eqn:Ebody; try discriminate. inv H.
  destruct (run_body _ _ 0 p fq (0, 0) finit Eb ltac:(vm_compute; discriminate)) as [-> _].
  destruct n as [|n]; [discriminate|]. cbn [peg_ev] in Ebody.
  destruct (seq_ev_app_inv _ _ _ _ _ _ _ Ebody) as (q1 & f1 & v1 & r1 & w1 & H1 & K1 & ->).
  destruct (seq_ev_cons_inv _ _ _ _ _ _ _ K1) as (q2 & f2 & v2 & r2 & w2 & H2 & K2 & ->).
  destruct (seq_ev_app_inv _ _ _ _ _ _ _ K2) as (q3 & f3 & v3 & r3 & w3 & H3 & K3 & ->).
  destruct (seq_ev_cons_inv _ _ _ _ _ _ _ K3) as (q4 & f4 & v4 & r4 & w4 & H4 & K4 & ->).
  destruct (seq_ev_app_inv _ _ _ _ _ _ _ K4) as (q5 & f5 & v5 & r5 & w5 & H5 & K5 & ->).
  destruct (seq_ev_cons_inv _ _ _ _ _ _ _ K5) as (q6 & f6 & v6 & r6 & w6 & H6 & K6 & ->).
  destruct (seq_ev_cons_inv _ _ _ _ _ _ _ K6) as (q7 & f7 & v7 & r7 & w7 & H7 & K7 & ->).
  destruct (seq_ev_cons_inv _ _ _ _ _ _ _ K7) as (q8 & f8 & v8 & r8 & w8 & H8 & K8 & ->).
  cbn [seq_ev] in K8. inv K8.
  rewrite seq_as_expr in H1, H3, H5.
  (* comments, "package", the name *)
  set (t0 := (0, 0)).
  destruct (item_run0 _ _ _ _ _ _ _ H1 ltac:(vm_compute; reflexivity) eq_refl eq_refl eq_refl t0 finit) as (s1 & R1 & S1 & P1 & G1 & (m1 & B1)).
  set (t1 := snd (tr f1 t0)).
  (* AddPackage *)
  match type of H2 with ev _ (EName ?r) _ = _ => assert (Er2 : exists k, nth_error G r = Some (RAct k) /\ nth k pegpeg_calls [] = [(CAddPackage, AText)] /\ r <> PTX) by (eexists; split; [|split]; vm_compute; (reflexivity || discriminate)) end.
  destruct Er2 as (k2 & Er2 & Ec2 & Np2). pose proof (act_ev _ _ _ _ _ _ _ Er2 H2) as ->.
  destruct (act_run _ _ q1 t1 s1 Er2 Np2) as [A2 T2]. rewrite Ec2 in A2. cbn [map fst snd arg_of] in A2.
  lazymatch type of A2 with run ?F _ _ = _ => assert (R2 : run F t1 s1 = Some (push_back s1 (NPackage (sub t1)))) end.
  { rewrite A2. reflexivity. }
  set (s2 := push_back s1 (NPackage (sub t1))) in *.
  (* imports, "type", the name *)
  destruct (item_run0 _ _ _ _ _ _ _ H3 ltac:(vm_compute; reflexivity) eq_refl eq_refl eq_refl t1 s2) as (s3 & R3 & S3 & P3 & G3 & (m3 & B3)).
  set (t3 := snd (tr f3 t1)).
  (* AddPeg *)
  match type of H4 with ev _ (EName ?r) _ = _ => assert (Er4 : exists k, nth_error G r = Some (RAct k) /\ nth k pegpeg_calls [] = [(CAddPeg, AText)] /\ r <> PTX) by (eexists; split; [|split]; vm_compute; (reflexivity || discriminate)) end.
  destruct Er4 as (k4 & Er4 & Ec4 & Np4). pose proof (act_ev _ _ _ _ _ _ _ Er4 H4) as ->.
  destruct (act_run _ _ q3 t3 s3 Er4 Np4) as [A4 T4]. rewrite Ec4 in A4. cbn [map fst snd arg_of] in A4.
  assert (Pg3 : pegn s3 = None) by (rewrite G3; cbn [s2 push_back pegn]; rewrite G1; reflexivity).
  lazymatch type of A4 with run ?F _ _ = _ => assert (R4 : run F t3 s3 = Some {| back := back s3; pend := pend s3; stk := stk s3; pegn := Some (sub t3) |}) end.
  { rewrite A4. cbn [BridgeDefs.frun]. unfold BridgeDefs.fstep. cbn [bop_of fst snd]. rewrite Pg3. reflexivity. }
  set (s4 := {| back := back s3; pend := pend s3; stk := stk s3; pegn := Some (sub t3) |}) in *.
  (* "Peg", the state *)
  destruct (item_run0 _ _ _ _ _ _ _ H5 ltac:(vm_compute; reflexivity) eq_refl eq_refl eq_refl t3 s4) as (s5 & R5 & S5 & P5 & G5 & (m5 & B5)).
  set (t5 := snd (tr f5 t3)).
  (* AddState *)
  match type of H6 with ev _ (EName ?r) _ = _ => assert (Er6 : exists k, nth_error G r = Some (RAct k) /\ nth k pegpeg_calls [] = [(CAddState, AText)] /\ r <> PTX) by (eexists; split; [|split]; vm_compute; (reflexivity || discriminate)) end.
  destruct Er6 as (k6 & Er6 & Ec6 & Np6). pose proof (act_ev _ _ _ _ _ _ _ Er6 H6) as ->.
  destruct (act_run _ _ q5 t5 s5 Er6 Np6) as [A6 T6]. rewrite Ec6 in A6. cbn [map fst snd arg_of] in A6.
  lazymatch type of A6 with run ?F _ _ = _ => assert (R6 : run F t5 s5 = Some {| back := back s5 ++ [NPeg (sub t3) (sub t5)]; pend := pend s5; stk := stk s5; pegn := None |}) end.
  { rewrite A6. cbn [BridgeDefs.frun]. unfold BridgeDefs.fstep. cbn [bop_of fst snd]. rewrite G5. reflexivity. }
  set (s6 := {| back := back s5 ++ [NPeg (sub t3) (sub t5)]; pend := pend s5; stk := stk s5; pegn := None |}) in *.
  (* the rules *)
  assert (S6 : stk s6 = []) by (cbn [s6 stk]; rewrite S5; cbn [s4 stk]; rewrite S3; cbn [s2 push_back stk]; exact S1).
  assert (P6 : pend s6 = None) by (cbn [s6 pend]; rewrite P5; cbn [s4 pend]; rewrite P3; cbn [s2 push_back pend]; exact P1).
  destruct n as [|n]; [discriminate|]. cbn [peg_ev] in H7.
  match type of H7 with match ?X with _ => _ end = _ => destruct X as [[[|qd fd] vd]|] eqn:Ed end; try discriminate.
  match type of H7 with match ?X with _ => _ end = _ => destruct X as [[[|qs fs] vs]|] eqn:Es end; try discriminate. inv H7.
  destruct (def_run _ _ _ _ _ Ed t5 s6 S6 P6) as (s7 & m7 & name & e & R7 & S7 & P7 & G7 & B7).
  destruct (defs_run _ _ _ _ _ Es (snd (tr fd t5)) s7 S7 P7) as (s8 & m8 & R8 & S8 & P8 & G8 & B8).
  (* assembling *)
  eapply run_app_ex; [exact R1|]. fold t1. eapply run_app_ex; [exact R2|]. rewrite T2.
  eapply run_app_ex; [exact R3|]. fold t3. eapply run_app_ex; [exact R4|]. rewrite T4.
  eapply run_app_ex; [exact R5|]. fold t5. eapply run_app_ex; [exact R6|]. rewrite T6.
  eapply run_app_ex; [rewrite run_app, R7; exact R8|].
  rewrite app_nil_r.
  match goal with |- exists s2, run _ ?T _ = _ /\ _ =>
    destruct (item_run0 _ _ _ _ _ _ _ H8 ltac:(vm_compute; reflexivity) eq_refl eq_refl eq_refl T s8) as (s9 & R9 & S9 & P9 & G9 & (m9 & B9)) end.
  exists s9. split; [exact R9|]. split; [congruence|]. split; [congruence|].
  assert (Bk : back s9 = (((((back s1 ++ [NPackage (sub t1)]) ++ m3) ++ m5) ++ [NPeg (sub t3) (sub t5)]) ++ m7 ++ [NRule name e]) ++ m8 ++ m9).
  { rewrite B9, B8, B7. cbn [s6 back]. rewrite B5. cbn [s4 back]. rewrite B3. cbn [s2 push_back back]. rewrite <- !app_assoc. reflexivity. }
  split; [rewrite G9, G8, G7; reflexivity|].
  split; [exists (sub t1); rewrite Bk, !in_app_iff; cbn [In]; tauto|].
  split; [exists (sub t3), (sub t5); rewrite Bk, !in_app_iff; cbn [In]; tauto|].
  exists name, e. rewrite Bk, !in_app_iff. cbn [In]. tauto.
Qed.

End Top.
