(** Rejection, one more family at the level of the file header: an import block that is opened and never closed.
    After the package clause and any number of well-formed imports comes `import`, layout, `(` and a text without `)`:
    MultiImport finds no closing parenthesis however far it reads, SingleImport cannot start at `(`, so this Import
    fails, Import* ends before it, and the keyword `type` does not match `import`. *)
From PegV Require Import Base.Tac Base.ListX Spec.Syntax Spec.Peg Proofs.PegRel Model.Calls Generated.PegPeg
  Reader.Defs Reader.Base Reader.Lex Reader.Chars Reader.Lits Reader.Expr Reader.File Reader.Reject Spec.WF Proofs.Forest Proofs.Total.
Local Open Scope Z_scope.

Section RejectImport.
Variable buf : list rune.
Variable penv : nat -> nat -> bool.
Notation At := (At buf).
Notation C := (C buf penv).
Notation ko := (ko pegpeg_d pegpeg_d_ptx buf penv).
Notation kos := (kos pegpeg_d pegpeg_d_ptx buf penv).
Notation koa := (koa pegpeg_d pegpeg_d_ptx buf penv).
Notation kwe l := (ESeq (map EChar l)).

Theorem grammar_rejects_unclosed_import hdr spkg pkg s1 imps sp T :
  header_ok hdr [112] -> lay spkg -> spkg <> [] -> ident_ok pkg = true -> lay s1 -> s1 <> [] ->
  Forall imp_ok imps -> lay sp -> ~ In 41 T ->
  buf = flat_map hshow hdr ++ kw_package ++ spkg ++ pkg ++ s1 ++ flat_map impshow imps ++ kw_import ++ sp ++ 40 :: T ->
  ko (EName pr_Grammar) 0.
Proof.
  intros Hh Hsp Hspn Hpk Hs1 Hs1n Himp Hlsp HT Ebuf.
  assert (Hat : At 0 (flat_map hshow hdr ++ kw_package ++ spkg ++ pkg ++ s1 ++ flat_map impshow imps ++ kw_import ++ sp ++ 40 :: T)).
  { rewrite <- Ebuf. apply At_start. }
  let b := eval vm_compute in (nth_error pegpeg_d pr_Grammar) in
  lazymatch b with
  | Some (RBody (ESeq [_; _; _; _; ?a1; _; _; _; _; ?a2; _; _; _; ?a3; _; _])) => pose (ea1 := a1); pose (ea2 := a2); pose (ea3 := a3)
  end.
  assert (Hea1 : forall q t0, C ea1 q q [(CAddPackage, sub buf t0)] t0 t0) by (intros; subst ea1; cgo).
  (* 1: header, package *)
  assert (Hst1 : stop (flat_map impshow imps ++ kw_import ++ sp ++ 40 :: T)).
  { destruct imps as [|i' l']; cbn [flat_map app]; [unfold kw_import; cbn [app]; apply stop_char; lia|].
    destruct i'; cbn [impshow]; unfold kw_import; cbn [app]; apply stop_char; lia. }
  destruct (seg_head buf penv hdr spkg pkg s1 _ ea1 0%nat (0%nat, 0%nat) Hh Hsp Hspn Hpk Hs1 Hs1n Hst1 Hea1 Hat) as [t1 S1].
  set (q1 := (0 + length (flat_map hshow hdr) + 7 + length spkg + length pkg + length s1)%nat) in *.
  assert (A1 : At q1 (flat_map impshow imps ++ kw_import ++ sp ++ 40 :: T)).
  { subst q1. atn Hat as X0. unfold kw_package in X0. cbn [app] in X0. at1 X0 as X1. at1 X1 as X2. at1 X2 as X3. at1 X3 as X4. at1 X4 as X5. at1 X5 as X6. at1 X6 as X7.
    atn X7 as X8. atn X8 as X9. atn X9 as X10.
    replace (0 + length (flat_map hshow hdr) + 7 + length spkg + length pkg + length s1)%nat
      with (S (S (S (S (S (S (S (0 + length (flat_map hshow hdr)))))))) + length spkg + length pkg + length s1)%nat by lia. exact X10. }
  (* 2: the well-formed imports, then the one that is never closed *)
  atn A1 as A2. set (q2 := (q1 + length (flat_map impshow imps))%nat) in *.
  unfold kw_import in A2. cbn [app] in A2.
  at1 A2 as B1. at1 B1 as B2. at1 B2 as B3. at1 B3 as B4. at1 B4 as B5. at1 B5 as B6.
  assert (Hst4 : stop (40 :: T)) by (apply stop_char; lia).
  pose proof (fun t => spacing_ok buf penv sp _ _ t Hlsp Hst4 B6) as Hsp3. atn B6 as B7.
  set (q3 := (S (S (S (S (S (S q2))))) + length sp)%nat) in *.
  pose proof (no_char_from buf penv _ 40 41 T B7 ltac:(lia) HT) as Hno. pose proof (len_at buf penv _ _ _ B7) as Hq.
  assert (KM : ko (EName pr_MultiImport) q3).
  { let b := eval vm_compute in (nth_error pegpeg_d pr_MultiImport) in
    lazymatch b with
    | Some (RBody (ESeq [?o; ?s; ?st; ?s'; EChar ?cl])) =>
        eapply ko_name; [vm_compute; reflexivity|]; apply ko_seq;
        apply (kos_until_char buf penv cl [] [o; s; st; s']); [lia|vm_compute; reflexivity|exact Hno]
    end. }
  assert (KS : ko (EName pr_SingleImport) q3) by korun.
  assert (Kimp : ko (EName pr_Import) q2).
  { ko_into_rule. apply ko_seq. cbn [map].
    eapply (kos_tail_C _ _ _ _ _ _ _ (0%nat, 0%nat)); [crun|]. eapply (kos_tail_C _ _ _ _ _ _ _ (0%nat, 0%nat)); [crun|].
    eapply (kos_tail_C _ _ _ _ _ _ _ (0%nat, 0%nat)); [crun|]. eapply (kos_tail_C _ _ _ _ _ _ _ (0%nat, 0%nat)); [crun|].
    eapply (kos_tail_C _ _ _ _ _ _ _ (0%nat, 0%nat)); [crun|]. eapply (kos_tail_C _ _ _ _ _ _ _ (0%nat, 0%nat)); [crun|].
    eapply (kos_tail_C _ _ _ _ _ _ _ _ _ (Hsp3 (0%nat, 0%nat))). apply kos_head. apply ko_alt.
    apply koa_cons; [exact KM|]. apply koa_cons; [exact KS|]. apply koa_nil. }
  assert (Hst2 : stop (105 :: 109 :: 112 :: 111 :: 114 :: 116 :: sp ++ 40 :: T)) by (apply stop_char; lia).
  destruct (imports_star buf penv imps _ q1 t1 Himp Hst2 Kimp A1) as [t2 S2].
  (* 3: `type` does not match `import` *)
  assert (K3 : kos [kwe kw_type; EName pr_MustSpacing; EName pr_Identifier; ea2; kwe kw_Peg; EName pr_Spacing; EName pr_Action; ea3;
                    EPlus (EName pr_Definition); EName pr_EndOfFile] q2).
  { apply kos_head. apply ko_seq. unfold kw_type. cbn [map]. apply kos_head. korun. }
  ko_into_rule. apply ko_seq.
  assert (Hall : kos (([EName pr_Header; kwe kw_package; EName pr_MustSpacing; EName pr_Identifier; ea1] ++ [EStar (EName pr_Import)]) ++
                  [kwe kw_type; EName pr_MustSpacing; EName pr_Identifier; ea2; kwe kw_Peg; EName pr_Spacing; EName pr_Action; ea3;
                   EPlus (EName pr_Definition); EName pr_EndOfFile]) 0).
  { eapply kos_app_Cs; [|exact K3]. eapply Cs_app; [exact S1|]. eapply Cs_cons; [exact S2|apply Cs_nil]. }
  subst ea1 ea2 ea3. cbn [app map kw_package kw_type kw_Peg] in Hall. exact Hall.
Qed.

End RejectImport.
Print Assumptions grammar_rejects_unclosed_import.
