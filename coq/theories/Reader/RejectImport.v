(** Rejection, one more family at the level of the file header: an import block that is opened and never closed.
    After the package clause and any number of well-formed imports comes `import`, layout, `(` and a text without `)`:
    MultiImport finds no closing parenthesis however far it reads, SingleImport cannot start at `(`, so this Import
    fails, Import* ends before it, and the keyword `type` does not match `import`. *)
From PegV Require Import Base.Tac Base.ListX Spec.Syntax Spec.Peg Proofs.PegRel Model.Calls Generated.PegPeg
  Reader.Defs Reader.Base Reader.Lex Reader.Chars Reader.Lits Reader.Expr Reader.File Reader.Reject Spec.WF Proofs.Forest Proofs.Total.
Local Open Scope Z_scope.

Section RejectImport.
Variable buf : list rune.
Variable penv : nat -> nat -> bool.
Notation At := (At buf).
Notation C := (C buf penv).
Notation ko := (ko pegpeg_d pegpeg_d_ptx buf penv).
Notation kos := (kos pegpeg_d pegpeg_d_ptx buf penv).
Notation koa := (koa pegpeg_d pegpeg_d_ptx buf penv).
Notation kwe l := (ESeq (map EChar l)).

Theorem grammar_rejects_unclosed_import hdr spkg pkg s1 imps sp T :
  header_ok hdr [112] -> lay spkg -> spkg <> [] -> ident_ok pkg = true -> lay s1 -> s1 <> [] ->
  Forall imp_ok imps -> lay sp -> ~ In 41 T ->
  buf = flat_map hshow hdr ++ kw_package ++ spkg ++ pkg ++ s1 ++ flat_map impshow imps ++ kw_import ++ sp ++ 40 :: T ->
  ko (EName pr_Grammar) 0.
Proof.
  intros Hh Hsp Hspn Hpk Hs1 Hs1n Himp Hlsp HT Ebuf.
  assert (Hat : At 0 (flat_map hshow hdr ++ kw_package ++ spkg ++ pkg ++ s1 ++ flat_map impshow imps ++ kw_import ++ sp ++ 40 :: T)).
  { rewrite <- Ebuf. apply At_start. }
  let b := eval vm_compute in (nth_error pegpeg_d pr_Grammar) in
  lazymatch b with
  | Some (RBody (ESeq [_; _; _; _; ?a1; _; _; _; _; ?a2; _; _; _; ?a3; _; _])) => pose (ea1 := a1); pose (ea2 := a2); pose (ea3 := a3)
  end.
  assert (Hea1 : forall q t0, C ea1 q q [(CAddPackage, sub buf t0)] t0 t0) by (intros; subst ea1; cgo).
  (* 1: header, package *)
  assert (Hst1 : stop (flat_map impshow imps ++ kw_import ++ sp ++ 40 :: T)).
  { destruct imps as [|i' l']; cbn [flat_map app]; [unfold kw_import; cbn [app]; apply stop_char; lia|].
    destruct i'; cbn [impshow]; unfold kw_import; cbn [app]; apply stop_char; lia. }
  destruct (seg_head buf penv hdr spkg pkg s1 _ ea1 0%nat (0%nat, 0%nat) Hh Hsp Hspn Hpk Hs1 Hs1n Hst1 Hea1 Hat) as [t1 S1].
  set (q1 := (0 + length (flat_map hshow hdr) + 7 + length spkg + length pkg + length s1)%nat) in *.
  assert (A1 : At q1 (flat_map impshow imps ++ kw_import ++ sp ++ 40 :: T)).
  { subst q1. atn Hat as X0. unfold kw_package in X0. cbn [app] in X0. at1 X0 as X1. at1 X1 as X2. at1 X2 as X3. at1 X3 as X4. at1 X4 as X5. at1 X5 as X6. at1 X6 as X7.
    atn X7 as X8. atn X8 as X9. atn X9 as X10.
    replace (0 + length (flat_map hshow hdr) + 7 + length spkg + length pkg + length s1)%nat
      with (S (S (S (S (S (S (S (0 + length (flat_map hshow hdr)))))))) + length spkg + length pkg + length s1)%nat by lia. exact X10. }
  (* 2: the well-formed imports, then the one that is never closed *)
  atn A1 as A2. set (q2 := (q1 + length (flat_map impshow imps))%nat) in *.
  unfold kw_import in A2. cbn [app] in A2.
  at1 A2 as B1. at1 B1 as B2. at1 B2 as B3. at1 B3 as B4. at1 B4 as B5. at1 B5 as B6.
  assert (Hst4 : stop (40 :: T)) by (apply stop_char; lia).
  pose proof (fun t => spacing_ok buf penv sp _ _ t Hlsp Hst4 B6) as Hsp3. atn B6 as B7.
  set (q3 := (S (S (S (S (S (S q2))))) + length sp)%nat) in *.
  pose proof (no_char_from buf penv _ 40 41 T B7 ltac:(lia) HT) as Hno. pose proof (len_at buf penv _ _ _ B7) as Hq.
  assert (KM : ko (EName pr_MultiImport) q3).
  { let b := eval vm_compute in (nth_error pegpeg_d pr_MultiImport) in
    lazymatch b with
    | Some (RBody (ESeq [?o; ?s; ?st; ?s'; EChar ?cl])) =>
        eapply ko_name; [vm_compute; reflexivity|]; apply ko_seq;
        apply (kos_until_char buf penv cl [] [o; s; st; s']); [lia|vm_compute; reflexivity|exact Hno]
    end. }
  assert (KS : ko (EName pr_SingleImport) q3) by korun.
  assert (Kimp : ko (EName pr_Import) q2).
  { ko_into_rule. apply ko_seq. cbn [map].
    eapply (kos_tail_C _ _ _ _ _ _ _ (0%nat, 0%nat)); [crun|]. eapply (kos_tail_C _ _ _ _ _ _ _ (0%nat, 0%nat)); [crun|].
    eapply (kos_tail_C _ _ _ _ _ _ _ (0%nat, 0%nat)); [crun|]. eapply (kos_tail_C _ _ _ _ _ _ _ (0%nat, 0%nat)); [crun|].
    eapply (kos_tail_C _ _ _ _ _ _ _ (0%nat, 0%nat)); [crun|]. eapply (kos_tail_C _ _ _ _ _ _ _ (0%nat, 0%nat)); [crun|].
    eapply (kos_tail_C _ _ _ _ _ _ _ _ _ (Hsp3 (0%nat, 0%nat))). apply kos_head. apply ko_alt.
    apply koa_cons; [exact KM|]. apply koa_cons; [exact KS|]. apply koa_nil. }
  assert (Hst2 : stop (105 :: 109 :: 112 :: 111 :: 114 :: 116 :: sp ++ 40 :: T)) by (apply stop_char; lia).
  destruct (imports_star buf penv imps _ q1 t1 Himp Hst2 Kimp A1) as [t2 S2].
  (* 3: `type` does not match `import` *)
  assert (K3 : kos [kwe kw_type; EName pr_MustSpacing; EName pr_Identifier; ea2; kwe kw_Peg; EName pr_Spacing; EName pr_Action; ea3;
                    EPlus (EName pr_Definition); EName pr_EndOfFile] q2).
  { apply kos_head. apply ko_seq. unfold kw_type. cbn [map]. apply kos_head. korun. }
  ko_into_rule. apply ko_seq.
  assert (Hall : kos (([EName pr_Header; kwe kw_package; EName pr_MustSpacing; EName pr_Identifier; ea1] ++ [EStar (EName pr_Import)]) ++
                  [kwe kw_type; EName pr_MustSpacing; EName pr_Identifier; ea2; kwe kw_Peg; EName pr_Spacing; EName pr_Action; ea3;
                   EPlus (EName pr_Definition); EName pr_EndOfFile]) 0).
  { eapply kos_app_Cs; [|exact K3]. eapply Cs_app; [exact S1|]. eapply Cs_cons; [exact S2|apply Cs_nil]. }
  subst ea1 ea2 ea3. cbn [app map kw_package kw_type kw_Peg] in Hall. exact Hall.
Qed.

(** a failing sequence stays failing when more elements follow *)
Lemma seq_fail_extend (f : expr -> nat -> option out) l1 : forall l2 p v, seq_ev f l1 p = Some (Fail, v) -> seq_ev f (l1 ++ l2) p = Some (Fail, v).
Proof.
  induction l1 as [|e l1 IH]; intros l2 p v H; cbn [seq_ev app] in *; [discriminate|].
  destruct (f e p) as [[[|q fq] vq]|]; try discriminate; [exact H|].
  destruct (seq_ev f l1 q) as [[[|q' fq'] vq']|] eqn:E; try discriminate.
  inv H. rewrite (IH l2 _ _ E). reflexivity.
Qed.
Lemma kos_extend l1 l2 p : kos l1 p -> kos (l1 ++ l2) p.
Proof. intros (n & v & H). exists n, v. apply seq_fail_extend. exact H. Qed.

(** ... and a ninth: after the package clause and any number of well-formed imports comes a text that begins with neither
    `import` nor `type` (and not with layout, which the clause before it has consumed): Import fails on its keyword,
    Import* ends, and so does the keyword `type`. *)
Theorem grammar_rejects_missing_type hdr spkg pkg s1 imps rest :
  header_ok hdr [112] -> lay spkg -> spkg <> [] -> ident_ok pkg = true -> lay s1 -> s1 <> [] ->
  Forall imp_ok imps -> stop rest -> (forall r, rest <> kw_import ++ r) -> (forall r, rest <> kw_type ++ r) ->
  buf = flat_map hshow hdr ++ kw_package ++ spkg ++ pkg ++ s1 ++ flat_map impshow imps ++ rest ->
  ko (EName pr_Grammar) 0.
Proof.
  intros Hh Hsp Hspn Hpk Hs1 Hs1n Himp Hstop Nimp Ntype Ebuf.
  assert (Hat : At 0 (flat_map hshow hdr ++ kw_package ++ spkg ++ pkg ++ s1 ++ flat_map impshow imps ++ rest)).
  { rewrite <- Ebuf. apply At_start. }
  let b := eval vm_compute in (nth_error pegpeg_d pr_Grammar) in
  lazymatch b with
  | Some (RBody (ESeq [_; _; _; _; ?a1; _; _; _; _; ?a2; _; _; _; ?a3; _; _])) => pose (ea1 := a1); pose (ea2 := a2); pose (ea3 := a3)
  end.
  assert (Hea1 : forall q t0, C ea1 q q [(CAddPackage, sub buf t0)] t0 t0) by (intros; subst ea1; cgo).
  assert (Hst1 : stop (flat_map impshow imps ++ rest)).
  { destruct imps as [|i' l']; cbn [flat_map app]; [exact Hstop|].
    destruct i'; cbn [impshow]; unfold kw_import; cbn [app]; apply stop_char; lia. }
  destruct (seg_head buf penv hdr spkg pkg s1 _ ea1 0%nat (0%nat, 0%nat) Hh Hsp Hspn Hpk Hs1 Hs1n Hst1 Hea1 Hat) as [t1 S1].
  set (q1 := (0 + length (flat_map hshow hdr) + 7 + length spkg + length pkg + length s1)%nat) in *.
  assert (A1 : At q1 (flat_map impshow imps ++ rest)).
  { subst q1. atn Hat as X0. unfold kw_package in X0. cbn [app] in X0. at1 X0 as X1. at1 X1 as X2. at1 X2 as X3. at1 X3 as X4. at1 X4 as X5. at1 X5 as X6. at1 X6 as X7.
    atn X7 as X8. atn X8 as X9. atn X9 as X10.
    replace (0 + length (flat_map hshow hdr) + 7 + length spkg + length pkg + length s1)%nat
      with (S (S (S (S (S (S (S (0 + length (flat_map hshow hdr)))))))) + length spkg + length pkg + length s1)%nat by lia. exact X10. }
  atn A1 as A2. set (q2 := (q1 + length (flat_map impshow imps))%nat) in *.
  assert (Kimp : ko (EName pr_Import) q2).
  { ko_into_rule. apply ko_seq.
    let b := eval vm_compute in (nth_error pegpeg_d pr_Import) in
    lazymatch b with
    | Some (RBody (ESeq [_; _; _; _; _; _; ?s; ?a; ?s'])) =>
        change (kos (map EChar kw_import ++ [s; a; s']) q2)
    end.
    apply kos_extend. exact (kw_ko buf penv kw_import _ _ A2 Nimp). }
  destruct (imports_star buf penv imps _ q1 t1 Himp Hstop Kimp A1) as [t2 S2].
  assert (K3 : kos [kwe kw_type; EName pr_MustSpacing; EName pr_Identifier; ea2; kwe kw_Peg; EName pr_Spacing; EName pr_Action; ea3;
                    EPlus (EName pr_Definition); EName pr_EndOfFile] q2).
  { apply kos_head. apply ko_seq. exact (kw_ko buf penv kw_type _ _ A2 Ntype). }
  ko_into_rule. apply ko_seq.
  assert (Hall : kos (([EName pr_Header; kwe kw_package; EName pr_MustSpacing; EName pr_Identifier; ea1] ++ [EStar (EName pr_Import)]) ++
                  [kwe kw_type; EName pr_MustSpacing; EName pr_Identifier; ea2; kwe kw_Peg; EName pr_Spacing; EName pr_Action; ea3;
                   EPlus (EName pr_Definition); EName pr_EndOfFile]) 0).
  { eapply kos_app_Cs; [|exact K3]. eapply Cs_app; [exact S1|]. eapply Cs_cons; [exact S2|apply Cs_nil]. }
  subst ea1 ea2 ea3. cbn [app map kw_package kw_type kw_Peg] in Hall. exact Hall.
Qed.

(** the general form of the last two: whatever follows the well-formed imports, if Import fails there and the text does
    not go on with `type`, the file is refused *)
Lemma rejects_after_imports hdr spkg pkg s1 imps rest :
  header_ok hdr [112] -> lay spkg -> spkg <> [] -> ident_ok pkg = true -> lay s1 -> s1 <> [] ->
  Forall imp_ok imps -> stop rest -> (forall q, At q rest -> ko (EName pr_Import) q) -> (forall r, rest <> kw_type ++ r) ->
  buf = flat_map hshow hdr ++ kw_package ++ spkg ++ pkg ++ s1 ++ flat_map impshow imps ++ rest ->
  ko (EName pr_Grammar) 0.
Proof.
  intros Hh Hsp Hspn Hpk Hs1 Hs1n Himp Hstop Kq Ntype Ebuf.
  assert (Hat : At 0 (flat_map hshow hdr ++ kw_package ++ spkg ++ pkg ++ s1 ++ flat_map impshow imps ++ rest)).
  { rewrite <- Ebuf. apply At_start. }
  let b := eval vm_compute in (nth_error pegpeg_d pr_Grammar) in
  lazymatch b with
  | Some (RBody (ESeq [_; _; _; _; ?a1; _; _; _; _; ?a2; _; _; _; ?a3; _; _])) => pose (ea1 := a1); pose (ea2 := a2); pose (ea3 := a3)
  end.
  assert (Hea1 : forall q t0, C ea1 q q [(CAddPackage, sub buf t0)] t0 t0) by (intros; subst ea1; cgo).
  assert (Hst1 : stop (flat_map impshow imps ++ rest)).
  { destruct imps as [|i' l']; cbn [flat_map app]; [exact Hstop|].
    destruct i'; cbn [impshow]; unfold kw_import; cbn [app]; apply stop_char; lia. }
  destruct (seg_head buf penv hdr spkg pkg s1 _ ea1 0%nat (0%nat, 0%nat) Hh Hsp Hspn Hpk Hs1 Hs1n Hst1 Hea1 Hat) as [t1 S1].
  set (q1 := (0 + length (flat_map hshow hdr) + 7 + length spkg + length pkg + length s1)%nat) in *.
  assert (A1 : At q1 (flat_map impshow imps ++ rest)).
  { subst q1. atn Hat as X0. unfold kw_package in X0. cbn [app] in X0. at1 X0 as X1. at1 X1 as X2. at1 X2 as X3. at1 X3 as X4. at1 X4 as X5. at1 X5 as X6. at1 X6 as X7.
    atn X7 as X8. atn X8 as X9. atn X9 as X10.
    replace (0 + length (flat_map hshow hdr) + 7 + length spkg + length pkg + length s1)%nat
      with (S (S (S (S (S (S (S (0 + length (flat_map hshow hdr)))))))) + length spkg + length pkg + length s1)%nat by lia. exact X10. }
  atn A1 as A2. set (q2 := (q1 + length (flat_map impshow imps))%nat) in *.
  assert (Kimp : ko (EName pr_Import) q2) by (apply Kq; exact A2).
  destruct (imports_star buf penv imps _ q1 t1 Himp Hstop Kimp A1) as [t2 S2].
  assert (K3 : kos [kwe kw_type; EName pr_MustSpacing; EName pr_Identifier; ea2; kwe kw_Peg; EName pr_Spacing; EName pr_Action; ea3;
                    EPlus (EName pr_Definition); EName pr_EndOfFile] q2).
  { apply kos_head. apply ko_seq. exact (kw_ko buf penv kw_type _ _ A2 Ntype). }
  ko_into_rule. apply ko_seq.
  assert (Hall : kos (([EName pr_Header; kwe kw_package; EName pr_MustSpacing; EName pr_Identifier; ea1] ++ [EStar (EName pr_Import)]) ++
                  [kwe kw_type; EName pr_MustSpacing; EName pr_Identifier; ea2; kwe kw_Peg; EName pr_Spacing; EName pr_Action; ea3;
                   EPlus (EName pr_Definition); EName pr_EndOfFile]) 0).
  { eapply kos_app_Cs; [|exact K3]. eapply Cs_app; [exact S1|]. eapply Cs_cons; [exact S2|apply Cs_nil]. }
  subst ea1 ea2 ea3. cbn [app map kw_package kw_type kw_Peg] in Hall. exact Hall.
Qed.

(** ... an eleventh family: `import` followed by something that can start neither an import block nor an import name -
    single quotes, angle brackets, a digit, the end of the text *)
Theorem grammar_rejects_bad_import hdr spkg pkg s1 imps sp T :
  header_ok hdr [112] -> lay spkg -> spkg <> [] -> ident_ok pkg = true -> lay s1 -> s1 <> [] ->
  Forall imp_ok imps -> lay sp -> stop T ->
  (forall c r, T = c :: r -> c <> 40 /\ is_istart c = false /\ c <> 34) ->
  buf = flat_map hshow hdr ++ kw_package ++ spkg ++ pkg ++ s1 ++ flat_map impshow imps ++ kw_import ++ sp ++ T ->
  ko (EName pr_Grammar) 0.
Proof.
  intros Hh Hsp Hspn Hpk Hs1 Hs1n Himp Hlsp HstT HT Ebuf.
  apply (rejects_after_imports hdr spkg pkg s1 imps (kw_import ++ sp ++ T) Hh Hsp Hspn Hpk Hs1 Hs1n Himp).
  - unfold kw_import. cbn [app]. apply stop_char; lia.
  - intros q A2. unfold kw_import in A2. cbn [app] in A2.
    at1 A2 as B1. at1 B1 as B2. at1 B2 as B3. at1 B3 as B4. at1 B4 as B5. at1 B5 as B6.
    pose proof (fun t => spacing_ok buf penv sp _ _ t Hlsp HstT B6) as Hsp3. atn B6 as B7.
    assert (KS : ko (EName pr_SingleImport) (S (S (S (S (S (S q))))) + length sp)%nat).
    { ko_into_rule. eapply iname_ko; [exact B7|]. intros c r E. destruct (HT c r E) as (_ & H2 & H3). split; assumption. }
    assert (KM : ko (EName pr_MultiImport) (S (S (S (S (S (S q))))) + length sp)%nat).
    { ko_into_rule. apply ko_seq. apply kos_head. destruct T as [|c r]; [korun|]. destruct (HT c r eq_refl) as (H1 & _). korun. }
    ko_into_rule. apply ko_seq. cbn [map].
    eapply (kos_tail_C _ _ _ _ _ _ _ (0%nat, 0%nat)); [crun|]. eapply (kos_tail_C _ _ _ _ _ _ _ (0%nat, 0%nat)); [crun|].
    eapply (kos_tail_C _ _ _ _ _ _ _ (0%nat, 0%nat)); [crun|]. eapply (kos_tail_C _ _ _ _ _ _ _ (0%nat, 0%nat)); [crun|].
    eapply (kos_tail_C _ _ _ _ _ _ _ (0%nat, 0%nat)); [crun|]. eapply (kos_tail_C _ _ _ _ _ _ _ (0%nat, 0%nat)); [crun|].
    eapply (kos_tail_C _ _ _ _ _ _ _ _ _ (Hsp3 (0%nat, 0%nat))). apply kos_head. apply ko_alt.
    apply koa_cons; [exact KM|]. apply koa_cons; [exact KS|]. apply koa_nil.
  - intros r E. unfold kw_import, kw_type in E. cbn [app] in E. discriminate.
  - exact Ebuf.
Qed.


(** ... and a tenth: the parser type without its `Peg` keyword - after `type`, layout, a name and layout comes a text that
    does not begin with `Peg` (nor with layout). *)
Theorem grammar_rejects_missing_Peg f rest : head_ok f -> stop rest -> (forall r, rest <> kw_Peg ++ r) ->
  buf = pre_text f ++ rest -> ko (EName pr_Grammar) 0.
Proof.
  intros (Hh & Hsp & Hspn & Hpk & Hs1 & Hs1n & Himp & Hst & Hstn & Hpeg & Hs2 & Hs2n & Hs3 & Hbal & Hs4) Hstop NPeg Ebuf.
  destruct f as [hdr spkg pkg s1 imps stype peg s2 s3 state s4 defs]. unfold pre_text in *.
  cbn [f_header f_s_pkg f_pkg f_s1 f_imports f_s_type f_peg f_s2 f_s3 f_state f_s4 f_defs] in *.
  assert (Hat : At 0 (flat_map hshow hdr ++ kw_package ++ spkg ++ pkg ++ s1 ++ flat_map impshow imps ++
                      kw_type ++ stype ++ peg ++ s2 ++ rest)).
  { replace (flat_map hshow hdr ++ kw_package ++ spkg ++ pkg ++ s1 ++ flat_map impshow imps ++
             kw_type ++ stype ++ peg ++ s2 ++ rest) with buf; [apply At_start|].
    rewrite Ebuf. repeat (rewrite <- ?app_assoc, <- ?app_comm_cons; cbn [app]). reflexivity. }
  let b := eval vm_compute in (nth_error pegpeg_d pr_Grammar) in
  lazymatch b with
  | Some (RBody (ESeq [_; _; _; _; ?a1; _; _; _; _; ?a2; _; _; _; ?a3; _; _])) => pose (ea1 := a1); pose (ea2 := a2); pose (ea3 := a3)
  end.
  assert (Hea1 : forall q t0, C ea1 q q [(CAddPackage, sub buf t0)] t0 t0) by (intros; subst ea1; cgo).
  assert (Hea2 : forall q t0, C ea2 q q [(CAddPeg, sub buf t0)] t0 t0) by (intros; subst ea2; cgo).
  assert (Hst1 : stop (flat_map impshow imps ++ kw_type ++ stype ++ peg ++ s2 ++ rest)).
  { destruct imps as [|i' l']; cbn [flat_map app]; [unfold kw_type; cbn [app]; apply stop_char; lia|].
    destruct i'; cbn [impshow]; unfold kw_import; cbn [app]; apply stop_char; lia. }
  destruct (seg_head buf penv hdr spkg pkg s1 _ ea1 0%nat (0%nat, 0%nat) Hh Hsp Hspn Hpk Hs1 Hs1n Hst1 Hea1 Hat) as [t1 S1].
  set (q1 := (0 + length (flat_map hshow hdr) + 7 + length spkg + length pkg + length s1)%nat) in *.
  assert (A1 : At q1 (flat_map impshow imps ++ kw_type ++ stype ++ peg ++ s2 ++ rest)).
  { subst q1. atn Hat as X0. unfold kw_package in X0. cbn [app] in X0. at1 X0 as X1. at1 X1 as X2. at1 X2 as X3. at1 X3 as X4. at1 X4 as X5. at1 X5 as X6. at1 X6 as X7.
    atn X7 as X8. atn X8 as X9. atn X9 as X10.
    replace (0 + length (flat_map hshow hdr) + 7 + length spkg + length pkg + length s1)%nat
      with (S (S (S (S (S (S (S (0 + length (flat_map hshow hdr)))))))) + length spkg + length pkg + length s1)%nat by lia. exact X10. }
  atn A1 as A2.
  assert (Kimp : ko (EName pr_Import) (q1 + length (flat_map impshow imps))%nat) by (unfold kw_type in A2; cbn [app] in A2; korun).
  assert (Hst2 : stop (kw_type ++ stype ++ peg ++ s2 ++ rest)) by (unfold kw_type; cbn [app]; apply stop_char; lia).
  destruct (imports_star buf penv imps _ q1 t1 Himp Hst2 Kimp A1) as [t2 S2].
  destruct (seg_type buf penv stype peg s2 _ ea2 _ t2 Hst Hstn Hpeg Hs2 Hs2n Hstop Hea2 A2) as [t3 S3].
  set (q3 := (q1 + length (flat_map impshow imps) + 4 + length stype + length peg + length s2)%nat) in *.
  assert (A3 : At q3 rest).
  { subst q3. unfold kw_type in A2. cbn [app] in A2. at1 A2 as X1. at1 X1 as X2. at1 X2 as X3. at1 X3 as X4. atn X4 as X5. atn X5 as X6. atn X6 as X7.
    replace (q1 + length (flat_map impshow imps) + 4 + length stype + length peg + length s2)%nat
      with (S (S (S (S (q1 + length (flat_map impshow imps))))) + length stype + length peg + length s2)%nat by lia. exact X7. }
  assert (K4 : kos [kwe kw_Peg; EName pr_Spacing; EName pr_Action; ea3; EPlus (EName pr_Definition); EName pr_EndOfFile] q3).
  { apply kos_head. apply ko_seq. exact (kw_ko buf penv kw_Peg _ _ A3 NPeg). }
  ko_into_rule. apply ko_seq.
  assert (Hall : kos (([EName pr_Header; kwe kw_package; EName pr_MustSpacing; EName pr_Identifier; ea1] ++ [EStar (EName pr_Import)] ++
                  [kwe kw_type; EName pr_MustSpacing; EName pr_Identifier; ea2]) ++
                  [kwe kw_Peg; EName pr_Spacing; EName pr_Action; ea3; EPlus (EName pr_Definition); EName pr_EndOfFile]) 0).
  { eapply kos_app_Cs; [|exact K4].
    eapply Cs_app; [exact S1|]. eapply Cs_app; [eapply Cs_cons; [exact S2|apply Cs_nil]|exact S3]. }
  subst ea1 ea2 ea3. cbn [app map kw_package kw_type kw_Peg] in Hall. exact Hall.
Qed.

End RejectImport.
Print Assumptions grammar_rejects_unclosed_import.
Print Assumptions grammar_rejects_missing_type.
Print Assumptions grammar_rejects_missing_Peg.
Print Assumptions grammar_rejects_bad_import.
