(** Lexical layer of peg.peg: spacing and comments, punctuation tokens, identifiers, actions. *)
From PegV Require Import Base.Tac Base.ListX Spec.Syntax Spec.Peg Proofs.PegRel Model.Calls Generated.PegPeg Reader.Base.
Local Open Scope Z_scope.

Section Lex.
Variable buf : list rune.
Variable penv : nat -> nat -> bool.
Notation At := (At buf).
Notation C := (C buf penv).
Notation ko := (ko pegpeg_d pegpeg_d_ptx buf penv).

(** ** EndOfLine *)
Lemma eol_rn p s t : At p (13 :: 10 :: s) -> C (EName pr_EndOfLine) p (S (S p)) [] t t.
Proof. intros H. cgo. Qed.
Lemma eol_n p s t : At p (10 :: s) -> C (EName pr_EndOfLine) p (S p) [] t t.
Proof. intros H. cgo. Qed.
Lemma eol_r p s t : At p (13 :: s) -> (forall s', s <> 10 :: s') -> C (EName pr_EndOfLine) p (S p) [] t t.
Proof.
  intros H N. destruct s as [|c s]; [cgo|].
  assert (c <> 10) by (intros ->; eapply N; reflexivity). cgo.
Qed.
Lemma eol_ko p s : At p s -> (forall c s', s = c :: s' -> c <> 10 /\ c <> 13) -> ko (EName pr_EndOfLine) p.
Proof.
  intros H N. destruct s as [|c s]; [korun|].
  destruct (N c s eq_refl). korun.
Qed.

(** a line break is consumed: one character, or both of "\r\n" *)
Definition lb_len (e : rune) (s : list rune) : nat :=
  match s with c :: _ => if ((e =? 13) && (c =? 10))%bool then 2%nat else 1%nat | [] => 1%nat end.
Lemma eol_lb p e s t : At p (e :: s) -> is_lb e -> C (EName pr_EndOfLine) p (p + lb_len e s)%nat [] t t.
Proof.
  intros H [-> | ->].
  - replace (p + lb_len 10%Z s)%nat with (S p) by (unfold lb_len; destruct s; cbn; lia). apply (eol_n _ _ _ H).
  - destruct s as [|c s].
    + replace (p + lb_len 13%Z [])%nat with (S p) by (cbn; lia). eapply eol_r; [exact H|discriminate].
    + unfold lb_len. cbn [Z.eqb Pos.eqb andb]. destruct (Z.eqb_spec c 10) as [->|N].
      * replace (p + 2)%nat with (S (S p)) by lia. apply (eol_rn _ _ _ H).
      * replace (p + 1)%nat with (S p) by lia. eapply eol_r; [exact H|congruence].
Qed.

(** ** comments *)
Notation cbody := (EStar (ESeq [ENot (EName pr_EndOfLine); EDot])).
Lemma comment_body body : forall p e s t, nolb body -> is_lb e -> At p (body ++ e :: s) ->
  C cbody p (p + length body)%nat [] t t.
Proof.
  induction body as [|c body IH]; intros p e s t Hb He H; cbn [app length] in *.
  - pose proof (fun t => eol_lb p e s t H He) as Heol.
    eapply C_eq; [apply C_star_nil; korun|lia|reflexivity|reflexivity].
  - inv Hb. assert (Hk : ko (EName pr_EndOfLine) p) by (eapply eol_ko; [exact H|intros ? ? E; inv E; assumption]).
    at1 H as A1. specialize (IH (S p) e s t H3 He A1).
    eapply C_eq; [eapply C_star_cons; [crun|exact IH]|lia|reflexivity|reflexivity].
Qed.

Lemma comment_hash p body e s t : nolb body -> is_lb e -> At p (35 :: body ++ e :: s) ->
  C (EName pr_Comment) p (p + 1 + length body + lb_len e s)%nat [] t t.
Proof.
  intros Hb He H. at1 H as A1.
  pose proof (comment_body body (S p) e s t Hb He A1) as Hbody.
  atn A1 as A2. pose proof (eol_lb _ _ _ t A2 He) as Heol.
  into_rule. eapply C_eq; [crun|lia|reflexivity|reflexivity].
Qed.
Lemma comment_slashes p body e s t : nolb body -> is_lb e -> At p (47 :: 47 :: body ++ e :: s) ->
  C (EName pr_Comment) p (p + 2 + length body + lb_len e s)%nat [] t t.
Proof.
  intros Hb He H. at1 H as A1. at1 A1 as A2.
  pose proof (comment_body body (S (S p)) e s t Hb He A2) as Hbody.
  atn A2 as A3. pose proof (eol_lb _ _ _ t A3 He) as Heol.
  into_rule. eapply C_eq; [crun|lia|reflexivity|reflexivity].
Qed.

(** ** Spacing *)
Lemma stop_ko p rest : At p rest -> stop rest -> ko (EName pr_SpaceComment) p.
Proof.
  intros H St. destruct rest as [|c r]; [korun|].
  destruct St as (N1 & N2 & N3 & N4 & N5 & N6).
  destruct (Z.eq_dec c 47) as [->|N7].
  - specialize (N6 eq_refl). destruct r as [|c2 r]; [korun|].
    assert (c2 <> 47) by (intros ->; exact N6). korun.
  - korun.
Qed.

(** a line break inside a layout, with what it leaves *)
Lemma lay_inv_10 s : lay (10 :: s) -> lay s.
Proof. intros H. inv H; assumption. Qed.

Lemma lb_split e s0 rest : is_lb e -> lay s0 -> stop rest ->
  exists m s', e :: s0 = m ++ s' /\ lay s' /\ length m = lb_len e (s0 ++ rest) /\ (0 < length m)%nat.
Proof.
  intros He Hl St. destruct s0 as [|c s1].
  - exists [e], []. repeat split; [constructor| |cbn; lia]. cbn [app]. unfold lb_len. destruct rest as [|c r]; [reflexivity|].
    destruct St as (_ & _ & N3 & _). destruct (Z.eqb_spec c 10); [contradiction|]. rewrite andb_false_r. reflexivity.
  - cbn [app]. unfold lb_len. destruct (Z.eqb_spec e 13) as [->|Ne]; [destruct (Z.eqb_spec c 10) as [->|Nc]|]; cbn [andb].
    + exists [13; 10], s1. repeat split; [apply lay_inv_10; exact Hl|cbn; lia].
    + exists [13], (c :: s1). repeat split; [exact Hl|cbn; lia].
    + exists [e], (c :: s1). repeat split; [exact Hl|cbn; lia].
Qed.

Lemma sc_step s : lay s -> s <> [] -> forall rest, stop rest ->
  exists m s', s = m ++ s' /\ (0 < length m)%nat /\ lay s' /\
    forall p t, At p (s ++ rest) -> C (EName pr_SpaceComment) p (p + length m)%nat [] t t.
Proof.
  intros Hl Hne rest St. inv Hl; [congruence| | |].
  - (* a blank or a line break *)
    destruct H as [-> | [-> | Hlb]].
    + exists [32], s0. repeat split; [cbn; lia|assumption|]. intros p t H. cbn [app length] in H. cgo.
    + exists [9], s0. repeat split; [cbn; lia|assumption|]. intros p t H. cbn [app length] in H. cgo.
    + destruct (lb_split c s0 rest Hlb H0 St) as (m & s' & E & L' & Lm & Lp).
      exists m, s'. repeat split; [exact E|exact Lp|exact L'|]. intros p t H. cbn [app] in H.
      pose proof (fun t => eol_lb _ _ _ t H Hlb) as Heol. rewrite Lm.
      assert (c <> 32 /\ c <> 9) as [? ?] by (destruct Hlb; subst; lia).
      eapply C_eq; [crun|reflexivity|reflexivity|reflexivity].
  - (* # comment *)
    destruct (lb_split e s0 rest H0 H1 St) as (m & s' & E & L' & Lm & Lp).
    exists (35 :: body ++ m), s'. repeat split.
    + cbn [app]. f_equal. rewrite <- app_assoc. f_equal. exact E.
    + cbn; lia.
    + exact L'.
    + intros p t Hat. cbn [app] in Hat. rewrite <- app_assoc in Hat. cbn [app] in Hat.
      pose proof (comment_hash _ _ _ _ t H H0 Hat) as Hc. cbn [length]. rewrite app_length, Lm.
      eapply C_eq; [crun|lia|reflexivity|reflexivity].
  - (* // comment *)
    destruct (lb_split e s0 rest H0 H1 St) as (m & s' & E & L' & Lm & Lp).
    exists (47 :: 47 :: body ++ m), s'. repeat split.
    + cbn [app]. f_equal. f_equal. rewrite <- app_assoc. f_equal. exact E.
    + cbn; lia.
    + exact L'.
    + intros p t Hat. cbn [app] in Hat. rewrite <- app_assoc in Hat. cbn [app] in Hat.
      pose proof (comment_slashes _ _ _ _ t H H0 Hat) as Hc. cbn [length]. rewrite app_length, Lm.
      eapply C_eq; [crun|lia|reflexivity|reflexivity].
Qed.

Lemma spacing_star n : forall s, (length s <= n)%nat -> lay s -> forall rest, stop rest -> forall p t, At p (s ++ rest) ->
  C (EStar (EName pr_SpaceComment)) p (p + length s)%nat [] t t.
Proof.
  induction n as [|n IH]; intros s Ln Hl rest St p t Hat.
  - destruct s; [|cbn in Ln; lia]. cbn [app length] in *. pose proof (stop_ko _ _ Hat St).
    eapply C_eq; [apply C_star_nil; eassumption|lia|reflexivity|reflexivity].
  - destruct s as [|c s0].
    + cbn [app length] in *. pose proof (stop_ko _ _ Hat St).
      eapply C_eq; [apply C_star_nil; eassumption|lia|reflexivity|reflexivity].
    + destruct (sc_step (c :: s0) Hl ltac:(discriminate) rest St) as (m & s' & E & Lp & L' & Hstep).
      pose proof (Hstep p t Hat) as H1.
      assert (Hat' : At (p + length m)%nat (s' ++ rest)) by (apply At_app; rewrite app_assoc, <- E; exact Hat).
      assert (Ls : length (c :: s0) = (length m + length s')%nat) by (rewrite E, app_length; reflexivity).
      assert (Hrec : C (EStar (EName pr_SpaceComment)) (p + length m)%nat (p + length m + length s')%nat [] t t).
      { apply (IH s' ltac:(cbn [length] in *; lia) L' rest St _ t Hat'). }
      eapply C_eq; [eapply C_star_cons; [exact H1|exact Hrec]|lia|reflexivity|reflexivity].
Qed.

Theorem spacing_ok s rest p t : lay s -> stop rest -> At p (s ++ rest) -> C (EName pr_Spacing) p (p + length s)%nat [] t t.
Proof. intros Hl St Hat. into_rule. eapply spacing_star; eauto. Qed.

Theorem must_spacing_ok s rest p t : lay s -> s <> [] -> stop rest -> At p (s ++ rest) ->
  C (EName pr_MustSpacing) p (p + length s)%nat [] t t.
Proof.
  intros Hl Hne St Hat. into_rule.
  destruct (sc_step s Hl Hne rest St) as (m & s' & E & Lp & L' & Hstep).
  pose proof (Hstep p t Hat) as H1.
  assert (Hat' : At (p + length m)%nat (s' ++ rest)) by (apply At_app; rewrite app_assoc, <- E; exact Hat).
  pose proof (spacing_star (length s') s' (le_n _) L' rest St _ t Hat') as H2.
  eapply C_eq; [eapply C_plus; [exact H1|exact H2]|rewrite E, app_length; lia|reflexivity|reflexivity].
Qed.

(** ** punctuation tokens: one character, then Spacing *)
Lemma tok_ok r c s rest p t :
  nth_error pegpeg_d r = Some (RBody (ESeq [EChar c; EName pr_Spacing])) -> r <> pegpeg_d_ptx ->
  lay s -> stop rest -> At p (c :: s ++ rest) -> C (EName r) p (p + 1 + length s)%nat [] t t.
Proof.
  intros Hr Hp Hl St Hat. at1 Hat as A1. pose proof (spacing_ok _ _ _ t Hl St A1) as Hsp.
  eapply C_name; [exact Hr|exact Hp|]. eapply C_eq; [crun|lia|reflexivity|reflexivity].
Qed.
Lemma tok_ko r c p s0 :
  nth_error pegpeg_d r = Some (RBody (ESeq [EChar c; EName pr_Spacing])) ->
  At p s0 -> (forall c' s', s0 = c' :: s' -> c' <> c) -> ko (EName r) p.
Proof.
  intros Hr Hat N. eapply ko_name; [exact Hr|]. apply ko_seq. apply kos_head. eapply ko_char_at; eassumption.
Qed.

(** LeftArrow: "<-" or U+2190 *)
Lemma arrow_ascii s rest p t : lay s -> stop rest -> At p (60 :: 45 :: s ++ rest) ->
  C (EName pr_LeftArrow) p (p + 2 + length s)%nat [] t t.
Proof.
  intros Hl St Hat. at1 Hat as A1. at1 A1 as A2. pose proof (spacing_ok _ _ _ t Hl St A2) as Hsp.
  into_rule. eapply C_eq; [crun|lia|reflexivity|reflexivity].
Qed.
Lemma arrow_uni s rest p t : lay s -> stop rest -> At p (8592 :: s ++ rest) ->
  C (EName pr_LeftArrow) p (p + 1 + length s)%nat [] t t.
Proof.
  intros Hl St Hat. at1 Hat as A1. pose proof (spacing_ok _ _ _ t Hl St A1) as Hsp.
  into_rule. eapply C_eq; [crun|lia|reflexivity|reflexivity].
Qed.
Lemma arrow_ko p s0 : At p s0 ->
  (forall c s', s0 = c :: s' -> c <> 8592 /\ (c = 60 -> forall c2 s2, s' = c2 :: s2 -> c2 <> 45)) -> ko (EName pr_LeftArrow) p.
Proof.
  intros Hat N. destruct s0 as [|c s']; [korun|]. destruct (N c s' eq_refl) as [N1 N2].
  destruct (Z.eq_dec c 60) as [->|N3].
  - destruct s' as [|c2 s2]; [korun|]. pose proof (N2 eq_refl c2 s2 eq_refl). korun.
  - korun.
Qed.

(** ** identifiers *)
Lemma istart_ok p c s t : At p (c :: s) -> is_istart c = true -> C (EName pr_IdentStart) p (S p) [] t t.
Proof.
  intros Hat Hc. unfold is_istart in Hc. into_rule.
  destruct ((97 <=? c) && (c <=? 122))%bool eqn:E1; [cgo|].
  destruct ((65 <=? c) && (c <=? 90))%bool eqn:E2; [cgo|].
  cbn [orb] in Hc. assert (c = 95) by lia. subst c. cgo.
Qed.
Lemma istart_ko p s0 : At p s0 -> (forall c s', s0 = c :: s' -> is_istart c = false) -> ko (EName pr_IdentStart) p.
Proof.
  intros Hat N. destruct s0 as [|c s']; [korun|]. pose proof (N c s' eq_refl) as Hc. unfold is_istart in Hc. korun.
Qed.
Lemma icont_ok p c s t : At p (c :: s) -> is_icont c = true -> C (EName pr_IdentCont) p (S p) [] t t.
Proof.
  intros Hat Hc. unfold is_icont in Hc. destruct (is_istart c) eqn:E.
  - pose proof (fun t => istart_ok p c s t Hat E). cgo.
  - cbn [orb] in Hc. pose proof (istart_ko p _ Hat ltac:(intros ? ? X; inv X; exact E)). cgo.
Qed.
Lemma icont_ko p s0 : At p s0 -> not_icont_head s0 -> ko (EName pr_IdentCont) p.
Proof.
  intros Hat N. assert (Hs : ko (EName pr_IdentStart) p).
  { eapply istart_ko; [exact Hat|]. intros c s' ->. specialize (N c s' eq_refl). unfold is_icont in N. destruct (is_istart c); [discriminate|reflexivity]. }
  destruct s0 as [|c s']; [korun|]. specialize (N c s' eq_refl). unfold is_icont in N.
  destruct (is_istart c); [discriminate|]. cbn [orb] in N. korun.
Qed.
Lemma icont_star r : forall p rest t, forallb is_icont r = true -> not_icont_head rest -> At p (r ++ rest) ->
  C (EStar (EName pr_IdentCont)) p (p + length r)%nat [] t t.
Proof.
  induction r as [|c r IH]; intros p rest t Hr Hn Hat; cbn [app length forallb] in *.
  - pose proof (icont_ko _ _ Hat Hn). eapply C_eq; [apply C_star_nil; eassumption|lia|reflexivity|reflexivity].
  - apply andb_true_iff in Hr. destruct Hr as [Hc Hr]. at1 Hat as A1.
    pose proof (icont_ok _ _ _ t Hat Hc). pose proof (IH _ _ t Hr Hn A1).
    eapply C_eq; [eapply C_star_cons; eassumption|lia|reflexivity|reflexivity].
Qed.

Theorem identifier_ok id s rest p t : ident_ok id = true -> lay s -> stop rest -> not_icont_head (s ++ rest) ->
  At p (id ++ s ++ rest) ->
  C (EName pr_Identifier) p (p + length id + length s)%nat [] t (p, (p + length id)%nat).
Proof.
  intros Hid Hl St Hn Hat. destruct id as [|c r]; [discriminate|]. cbn [ident_ok] in Hid.
  apply andb_true_iff in Hid. destruct Hid as [Hc Hr]. cbn [app length] in *. at1 Hat as A1.
  pose proof (fun t => istart_ok _ _ _ t Hat Hc) as K1.
  pose proof (fun t => icont_star r _ _ t Hr Hn A1) as K2.
  atn A1 as A2.
  pose proof (fun t => spacing_ok _ _ _ t Hl St A2) as K3.
  into_rule. eapply C_eq; [crun|lia|reflexivity|f_equal; lia].
Qed.
Lemma identifier_ko p s0 : At p s0 -> (forall c s', s0 = c :: s' -> is_istart c = false) -> ko (EName pr_Identifier) p.
Proof. intros Hat N. pose proof (istart_ko _ _ Hat N). korun. Qed.

(** ** actions *)
Lemma abody_ko p c s : At p (c :: s) -> c = 125 -> ko (EName pr_ActionBody) p.
Proof. intros Hat ->. korun. Qed.

Lemma abody_star a : bal a -> forall p rest t, At p (a ++ 125 :: rest) ->
  C (EStar (EName pr_ActionBody)) p (p + length a)%nat [] t t.
Proof.
  induction 1 as [|c s N1 N2 Hb IH|a s Ha IHa Hs IHs]; intros p rest t Hat; cbn [app length] in *.
  - pose proof (abody_ko _ _ _ Hat eq_refl). eapply C_eq; [apply C_star_nil; eassumption|lia|reflexivity|reflexivity].
  - at1 Hat as A1. pose proof (IH _ _ t A1) as Hrec.
    eapply C_eq; [eapply C_star_cons; [crun|exact Hrec]|lia|reflexivity|reflexivity].
  - at1 Hat as A1. rewrite <- app_assoc in A1. cbn [app] in A1.
    pose proof (fun t => IHa _ _ t A1) as K1. atn A1 as A2. at1 A2 as A3.
    pose proof (IHs _ _ t A3) as K3.
    eapply C_eq; [eapply C_star_cons; [crun|exact K3]|rewrite app_length; cbn [length]; lia|reflexivity|reflexivity].
Qed.

Theorem action_ok a s rest p t : bal a -> lay s -> stop rest -> At p (123 :: a ++ 125 :: s ++ rest) ->
  C (EName pr_Action) p (p + 2 + length a + length s)%nat [] t (S p, (S p + length a)%nat).
Proof.
  intros Hb Hl St Hat. at1 Hat as A1.
  pose proof (fun t => abody_star a Hb _ _ t A1) as K1. atn A1 as A2. at1 A2 as A3.
  pose proof (fun t => spacing_ok _ _ _ t Hl St A3) as K3.
  into_rule. eapply C_eq; [crun|lia|reflexivity|reflexivity].
Qed.
Lemma action_ko p s0 : At p s0 -> (forall c s', s0 = c :: s' -> c <> 123) -> ko (EName pr_Action) p.
Proof. intros Hat N. destruct s0 as [|c s']; [korun|]. pose proof (N c s' eq_refl). korun. Qed.

(** ** end of input *)
Lemma eof_ok p t : At p [] -> C (EName pr_EndOfFile) p p [] t t.
Proof. intros Hat. cgo. Qed.

End Lex.
