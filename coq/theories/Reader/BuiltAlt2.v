(** What the builder builds has every ordered choice at two alternatives or more: the hypothesis [grammar_alt2] of the
    emission theorems (C08_declared_variables_used, C01_side_condition_always_holds) is a property of every tree the
    front end hands to Compile, whatever text it was given. *)
From PegV Require Import Base.Tac Spec.Syntax Model.Calls Model.Front Proofs.EmitUse Reader.Defs Reader.BridgeDefs.
From Coq Require Import List Bool.
Import ListNotations.

Lemma alt2_add_list_alt a b : alt2 a = true -> alt2 b = true -> alt2 (add_list_alt a b) = true.
Proof.
  intros Ha Hb. unfold add_list_alt. destruct b; try (cbn [alt2 length forallb Nat.leb andb] in *; rewrite Ha, ?Hb; reflexivity).
  cbn [alt2] in *. apply andb_true_iff in Hb as [Hl Hb]. rewrite app_length, forallb_app, Hb. cbn [forallb length]. rewrite Ha.
  apply Nat.leb_le in Hl. replace (Nat.leb 2 (length es + 1)) with true by (symmetry; apply Nat.leb_le; lia). reflexivity.
Qed.
Lemma alt2_add_list_seq a b : alt2 a = true -> alt2 b = true -> alt2 (add_list_seq a b) = true.
Proof.
  intros Ha Hb. unfold add_list_seq. destruct b; try (cbn [alt2 forallb andb] in *; rewrite Ha, ?Hb; reflexivity).
  cbn [alt2] in *. rewrite forallb_app, Hb. cbn [forallb]. rewrite Ha. reflexivity.
Qed.

Lemma bstep_alt2 stk o stk' : Forall (fun e => alt2 e = true) stk -> bstep stk o = Some stk' -> Forall (fun e => alt2 e = true) stk'.
Proof.
  intros H E. destruct o; cbn [bstep] in E;
    try (inv E; constructor; [reflexivity|exact H]).
  - destruct stk as [|a [|b r]]; try discriminate. inv E. inv H. match goal with X : Forall _ (b :: r) |- _ => inv X end.
    constructor; [apply alt2_add_list_alt; assumption|assumption].
  - destruct stk as [|a [|b r]]; try discriminate. inv E. inv H. match goal with X : Forall _ (b :: r) |- _ => inv X end.
    constructor; [apply alt2_add_list_seq; assumption|assumption].
  - destruct stk as [|[] [|[] r]]; try discriminate. inv E. inv H. match goal with X : Forall _ (_ :: r) |- _ => inv X end.
    constructor; [reflexivity|assumption].
  - destruct stk as [|[] [|[] r]]; try discriminate. inv E. inv H. match goal with X : Forall _ (_ :: r) |- _ => inv X end.
    constructor; [reflexivity|assumption].
  - destruct stk as [|a r]; try discriminate. inv E. inv H. constructor; assumption.
  - destruct stk as [|a r]; try discriminate. inv E. inv H. constructor; assumption.
  - destruct stk as [|a r]; try discriminate. inv E. inv H. constructor; assumption.
  - destruct stk as [|a r]; try discriminate. inv E. inv H. constructor; assumption.
  - destruct stk as [|a r]; try discriminate. inv E. inv H. constructor; assumption.
  - destruct stk as [|a r]; try discriminate. inv E. inv H. constructor; assumption.
Qed.

Section Built.
Variable nm : list rune -> nat.
Variable ak : list rune -> nat.

Definition good_state (s : fstate) : Prop :=
  Forall (fun e => alt2 e = true) (stk s) /\ forall n e, In (NRule n e) (back s) -> alt2 e = true.

Lemma fstep_good s c s' : good_state s -> fstep nm ak s c = Some s' -> good_state s'.
Proof.
  intros [Hs Hb] E. unfold fstep in E. destruct (bop_of nm ak c) as [o|] eqn:Eo.
  - destruct (bstep (stk s) o) as [stk'|] eqn:Eb; [|discriminate]. inv E. split; [eapply bstep_alt2; eauto|exact Hb].
  - destruct c as [[] t]; try discriminate; try (inv E; split; [exact Hs|]; cbn [back push_back]; intros n e Hin; apply in_app_or in Hin as [Hin|[Hin|[]]]; [eapply Hb; eauto|discriminate]).
    + destruct (pegn s); [discriminate|]. inv E. split; [exact Hs|exact Hb].
    + destruct (pegn s); [|discriminate]. inv E. split; [exact Hs|]. cbn [back]. intros n e Hin. apply in_app_or in Hin as [Hin|[Hin|[]]]; [eapply Hb; eauto|discriminate].
    + destruct (pend s); [discriminate|]. destruct (stk s); [|discriminate]. inv E. split; [constructor|exact Hb].
    + destruct (pend s) as [n0|]; [|discriminate]. destruct (stk s) as [|e0 [|]] eqn:Ek; try discriminate. inv E. split; [constructor|].
      cbn [back]. intros n e Hin. apply in_app_or in Hin as [Hin|[Hin|[]]]; [eapply Hb; eauto|]. inv Hin. inv Hs. assumption.
Qed.

Lemma frun_good cs : forall s s', good_state s -> frun nm ak cs s = Some s' -> good_state s'.
Proof.
  induction cs as [|c cs IH]; intros s s' H E; cbn [frun] in E; [inv E; exact H|].
  destruct (fstep nm ak s c) as [s1|] eqn:E1; [|discriminate]. eapply IH; [eapply fstep_good; eauto|exact E].
Qed.

(** every rule the builder ends up with, from the empty state, has its choices at two alternatives or more *)
Theorem built_rules_alt2 cs s' : frun nm ak cs finit = Some s' -> forall n e, In (NRule n e) (back s') -> alt2 e = true.
Proof.
  intros E. apply (frun_good cs finit s'); [|exact E]. split; [constructor|intros n e []].
Qed.
End Built.
