(** Model of /repo/set/set.go (after the three "fix:" commits): a set is the list of
    (Begin, End) pairs met when walking Head.Forward ... up to Tail.
    The Go code keeps the list sorted, pairwise disjoint and non-adjacent. *)
From Coq Require Import List ZArith Bool Lia.
Import ListNotations.
Open Scope Z_scope.

Definition iset := list (Z * Z).

Definition new_set : iset := [].

(** AddRange: nodes strictly before and not adjacent to [b,e] are kept (forward scan);
    nodes strictly after and not adjacent are kept (backward scan); everything in between
    is merged with [b,e] into one node. *)
Fixpoint add_range (l : iset) (b e : Z) : iset :=
  match l with
  | [] => [(b, e)]
  | (nb, ne) :: l' =>
      if ne <? b - 1 then (nb, ne) :: add_range l' b e
      else if e <? nb - 1 then (b, e) :: l
      else add_range l' (Z.min b nb) (Z.max e ne)
  end.

Definition add (l : iset) (a : Z) : iset := add_range l a a.

(** Has: skip nodes whose End is below x, then test Begin. *)
Fixpoint has (l : iset) (x : Z) : bool :=
  match l with
  | [] => false
  | (nb, ne) :: l' => if ne <? x then has l' x else nb <=? x
  end.

Fixpoint len (l : iset) : Z :=
  match l with
  | [] => 0
  | (nb, ne) :: l' => (ne - nb + 1) + len l'
  end.

Definition copy (l : iset) : iset := l.

Definition union (s a : iset) : iset :=
  fold_left (fun acc n => add_range acc (fst n) (snd n)) a (copy s).

(** Complement within [0, lim] (the loop of the repaired Complement). *)
Fixpoint compl_loop (l : iset) (pre lim : Z) (acc : iset) : iset :=
  match l with
  | [] => add_range acc pre lim
  | (nb, ne) :: l' =>
      if lim <? nb then add_range acc pre lim
      else
        let acc' := if pre <? nb then add_range acc pre (nb - 1) else acc in
        if lim <=? ne then acc' else compl_loop l' (ne + 1) lim acc'
  end.

Definition complement (l : iset) (lim : Z) : iset := compl_loop l 0 lim [].

Definition node_hits (x y : Z * Z) : bool :=
  ((fst x <=? fst y) && (fst y <=? snd x)) || ((fst x <=? snd y) && (snd y <=? snd x)).

(** Intersects: for every node x of s, every node y of b (and then with roles swapped):
    does y.Begin or y.End fall inside x? *)
Definition half_intersects (s b : iset) : bool :=
  existsb (fun x => existsb (fun y => node_hits x y) b) s.

Definition intersects (s b : iset) : bool :=
  half_intersects s b || half_intersects b s.

Fixpoint nodes_eqb (a b : iset) : bool :=
  match a, b with
  | [], [] => true
  | (b1, e1) :: a', (b2, e2) :: b' => (b1 =? b2) && (e1 =? e2) && nodes_eqb a' b'
  | _, _ => false
  end.

(** Equal: lengths first, then node by node. *)
Definition equal (s a : iset) : bool :=
  if negb (len s =? len a) then false
  else if len s =? 0 then true
  else nodes_eqb s a.

(** String: the ascending list of elements (the Go code prints them separated by blanks). *)
Fixpoint zrange_f (fuel : nat) (b : Z) : list Z :=
  match fuel with O => [] | S f => b :: zrange_f f (b + 1) end.
Definition zrange (b e : Z) : list Z := zrange_f (Z.to_nat (e - b + 1)) b.

Definition elements (l : iset) : list Z := flat_map (fun n => zrange (fst n) (snd n)) l.

(** A store of sets and the operations of the package, as exercised by the harness. *)
Inductive sop :=
| ONew
| OAddRange (i : nat) (b e : Z)
| OCopy (i : nat)
| OUnion (i j : nat)
| OComplement (i : nat) (lim : Z).

Definition get (st : list iset) (i : nat) : iset := nth i st [].

Fixpoint set_nth {A} (l : list A) (i : nat) (x : A) : list A :=
  match l, i with
  | [], _ => []
  | _ :: l', O => x :: l'
  | y :: l', S i' => y :: set_nth l' i' x
  end.

Definition step (st : list iset) (o : sop) : list iset :=
  match o with
  | ONew => st ++ [new_set]
  | OAddRange i b e => if Nat.ltb i (length st) then set_nth st i (add_range (get st i) b e) else st
  | OCopy i => st ++ [copy (get st i)]
  | OUnion i j => st ++ [union (get st i) (get st j)]
  | OComplement i lim => st ++ [complement (get st i) lim]
  end.

Definition run (ops : list sop) : list iset := fold_left step ops [].
