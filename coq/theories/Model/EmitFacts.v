(** Small pieces of the emission logic of tree/peg.go that C08 depends on:
    the rule-constant type chosen from the tree length, and the escaping of the rule comment. *)
From Coq Require Import List ZArith Bool Arith Lia.
Import ListNotations.

(** PegRuleType: uint8 / uint16 / uint32 / uint64 by the number of top-level tree nodes (t.Len()) *)
Inductive uty := U8 | U16 | U32 | U64.
Definition umax (t : uty) : Z :=
  match t with U8 => 255 | U16 => 65535 | U32 => 4294967295 | U64 => 18446744073709551615 end%Z.
Definition peg_rule_type (tlen : Z) : uty :=
  if (4294967295 <? tlen)%Z then U64 else if (65535 <? tlen)%Z then U32 else if (255 <? tlen)%Z then U16 else U8.

(** strings.ReplaceAll(s, "*/", "* /") on a list of code units: non-overlapping, left to right *)
Definition star : Z := 42%Z.
Definition slash : Z := 47%Z.
Definition blank : Z := 32%Z.
Fixpoint escape_comment (s : list Z) : list Z :=
  match s with
  | [] => []
  | c :: r =>
      match r with
      | d :: r' => if (Z.eqb c star && Z.eqb d slash)%bool then star :: blank :: slash :: escape_comment r'
                   else c :: escape_comment r
      | [] => [c]
      end
  end.

(** does the comment terminator occur? *)
Fixpoint has_terminator (s : list Z) : bool :=
  match s with
  | c :: ((d :: _) as r) => (Z.eqb c star && Z.eqb d slash)%bool || has_terminator r
  | _ => false
  end.
