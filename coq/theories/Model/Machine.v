(** The generated parser as an interpreter: what the Go code emitted by Tree.Compile
    (tree/peg.go, "compile") together with the template runtime (tree/peg.go.tmpl: add, memoize,
    memoizedResult, the rule wrapper) does on the state (position, tokenIndex, token buffer,
    maxToken, memo table).  The structure follows [compile] case by case; a failing expression
    returns [Ret false] with whatever position/tokenIndex it reached, exactly like the emitted
    [goto ko]: it is the catcher (choice, ?, *, !, rule wrapper) that restores.
    Every buffer read goes through [nth_error]; a read out of range or a call through a nil rule
    slot is [Crash]. *)
From Coq Require Import List ZArith Bool Arith.
From PegV Require Import Spec.Syntax Spec.Peg.
Import ListNotations.

Inductive mentry := MFail | MOk (part : list tok).

Record mstate := mkst {
  pos : nat; tix : nat;
  toks : list tok;                       (* tree.tree, including the stale tail beyond tix *)
  maxtok : tok;                          (* maxToken *)
  memo : list ((nat * nat) * mentry);    (* memoization, key (rule, position) *)
  text : (nat * nat);                    (* -noast: begin,end of the last capture *)
  alog : list (nat * (nat * nat))        (* -noast: actions run inline, with the capture they saw *)
}.

Inductive mres := Crash | Ret (b : bool) (st : mstate).

Record opts := mkopts {
  o_ast : bool;                          (* false = -noast *)
  o_memo : bool;                         (* false = DisableMemoize *)
  o_inline : nat -> bool;                (* rule inlined at its single reference (-inline) *)
  o_asu : nat -> bool                    (* CheckAlwaysSucceeds: call emitted without the failure branch *)
}.

Definition set_pos (p : nat) (st : mstate) : mstate :=
  mkst p (tix st) (toks st) (maxtok st) (memo st) (text st) (alog st).
Definition restore (p t : nat) (st : mstate) : mstate :=
  mkst p t (toks st) (maxtok st) (memo st) (text st) (alog st).
Definition advance (st : mstate) : mstate := set_pos (S (pos st)) st.

Fixpoint set_at (l : list tok) (i : nat) (x : tok) : list tok :=
  match l, i with
  | [], _ => [x]                          (* i >= len: append *)
  | _ :: l', O => x :: l'
  | y :: l', S i' => y :: set_at l' i' x
  end.

(** add(rule, begin): tree.Add(rule, begin, position, tokenIndex); tokenIndex++; maxToken update *)
Definition add (o : opts) (r b : nat) (st : mstate) : mstate :=
  let t : tok := (r, (b, pos st)) in
  mkst (pos st) (S (tix st))
       (if o_ast o then set_at (toks st) (tix st) t else toks st)
       (if (negb (b =? pos st) && (tk_end (maxtok st) <? pos st))%bool then t else maxtok st)
       (memo st) (text st) (alog st).

Fixpoint lookup (m : list ((nat * nat) * mentry)) (r p : nat) : option mentry :=
  match m with
  | [] => None
  | ((r', p'), e) :: m' => if ((r =? r') && (p =? p'))%bool then Some e else lookup m' r p
  end.

Definition slice (l : list tok) (a b : nat) : list tok := firstn (b - a) (skipn a l).

(** memoize(rule, begin, tokenIndexStart, matched) *)
Definition memoize (o : opts) (r p0 t0 : nat) (matched : bool) (st : mstate) : mstate :=
  if o_memo o then
    mkst (pos st) (tix st) (toks st) (maxtok st)
         (((r, p0), if matched then MOk (slice (toks st) t0 (tix st)) else MFail) :: memo st)
         (text st) (alog st)
  else st.

(** memoizedResult(m) *)
Definition memoized (m : mentry) (st : mstate) : mres :=
  match m with
  | MFail => Ret false st
  | MOk part =>
      match rev part with
      | [] => Crash                                   (* m.Partial[len-1] with len = 0 *)
      | last :: _ =>
          if length (toks st) <? tix st then Crash    (* tree.tree[:tokenIndex] beyond the slice *)
          else
            let p := tk_end last in
            Ret true (mkst p (tix st + length part) (firstn (tix st) (toks st) ++ part)
                           (if (negb (tk_begin last =? p) && (tk_end (maxtok st) <? p))%bool then last else maxtok st)
                           (memo st) (text st) (alog st))
      end
  end.

Section Run.
Variable g : grammar.
Variable ptx : nat.
Variable buf : list rune.                 (* runes WITHOUT the sentinel; the machine reads sbuf *)
Variable penv : nat -> nat -> bool.
Variable o : opts.

Definition sbuf : list rune := buf ++ [endSymbol].
Definition rd (st : mstate) : option rune := nth_error sbuf (pos st).

(** a terminal test: read, fail on mismatch, else position++ *)
Definition mterm (ok : rune -> bool) (st : mstate) : mres :=
  match rd st with
  | None => Crash
  | Some c => if ok c then Ret true (advance st) else Ret false st
  end.

Definition log_action (k : nat) (st : mstate) : mstate :=
  mkst (pos st) (tix st) (toks st) (maxtok st) (memo st) (text st) (alog st ++ [(k, text st)]).
Definition set_text (b e : nat) (st : mstate) : mstate :=
  mkst (pos st) (tix st) (toks st) (maxtok st) (memo st) (b, e) (alog st).

(** sequence: only the first element inherits the parent's skip-check flags *)
Fixpoint seq_run (run : expr -> bool -> bool -> mstate -> option mres)
                 (es : list expr) (pd mk : bool) (st : mstate) : option mres :=
  match es with
  | [] => Some (Ret true st)
  | e :: es' =>
      match run e pd mk st with
      | Some (Ret true st1) => seq_run run es' false false st1
      | r => r
      end
  end.

(** ordered choice: position/tokenIndex saved once; restored between alternatives; the last
    alternative fails to the outer continuation without restoring.  The skip-check flags of the
    parent are not handed down (nor through lookahead, optional and star): only the first element of a sequence,
    captures and inlined rules inherit them. *)
Fixpoint alt_run (run : expr -> bool -> bool -> mstate -> option mres)
                 (es : list expr) (pd mk : bool) (p0 t0 : nat) (st : mstate) : option mres :=
  match es with
  | [] => Some (Ret false st)
  | e :: es' =>
      match run e pd mk st with
      | Some (Ret false st1) =>
          match es' with
          | [] => Some (Ret false st1)
          | _ => alt_run run es' false false p0 t0 (restore p0 t0 st1)
          end
      | r => r
      end
  end.

(** ImplicitPush[body, rule]: what a rule's code does, inlined or inside its function *)
Definition ipush_run (run : expr -> bool -> bool -> mstate -> option mres)
                     (r : nat) (pd mk : bool) (st : mstate) : option mres :=
  match nth_error g r with
  | Some (RBody b) =>
      let p0 := pos st in
      match run b pd mk st with
      | Some (Ret true st1) => Some (Ret true (add o r p0 st1))
      | x => x
      end
  | Some (RAct k) =>
      if o_ast o then Some (Ret true (add o r (pos st) st))
      else Some (Ret true (log_action k st))
  | _ => Some Crash
  end.

(** the rule function: memo check, save, body, memoize, restore on failure *)
Definition rule_fn (run : expr -> bool -> bool -> mstate -> option mres) (r : nat) (st : mstate) : option mres :=
  match (if o_ast o then lookup (memo st) r (pos st) else None) with
  | Some m => Some (memoized m st)
  | None =>
      let p0 := pos st in let t0 := tix st in
      match ipush_run run r false false st with
      | Some (Ret true st1) => Some (Ret true (if o_ast o then memoize o r p0 t0 true st1 else st1))
      | Some (Ret false st1) => Some (Ret false (restore p0 t0 (if o_ast o then memoize o r p0 t0 false st1 else st1)))
      | x => x
      end
  end.

(** a call site: "if !_rules[r]() { goto ko }", or just "_rules[r]()" when CheckAlwaysSucceeds *)
Definition call_run (run : expr -> bool -> bool -> mstate -> option mres) (r : nat) (st : mstate) : option mres :=
  if o_asu o r then
    match rule_fn run r st with
    | Some (Ret _ st1) => Some (Ret true st1)
    | x => x
    end
  else rule_fn run r st.

Fixpoint run_f (n : nat) (e : expr) (pd mk : bool) (st : mstate) {struct n} : option mres :=
  match n with
  | O => None
  | S n =>
    match e with
    | EDot =>
        if pd then Some (Ret true st)
        else Some (mterm (fun c => negb (Z.eqb c endSymbol)) st)
    | EChar c =>
        if (pd && negb mk)%bool then Some (Ret true (advance st))
        else Some (mterm (Z.eqb c) st)
    | ERange lo hi =>
        if pd then Some (Ret true (advance st))
        else Some (mterm (in_range lo hi) st)
    | EName r =>
        if o_inline o r then ipush_run (run_f n) r pd mk st
        else call_run (run_f n) r st
    | EPred k => Some (Ret (penv k (pos st)) st)
    | EState _ | EAct _ | ENil => Some (Ret true st)
    | ESeq es => seq_run (run_f n) es pd mk st
    | EAlt es => alt_run (run_f n) es false false (pos st) (tix st) st
    | EAnd e1 =>
        match run_f n e1 false false st with
        | Some (Ret true st1) => Some (Ret true (restore (pos st) (tix st) st1))
        | x => x
        end
    | ENot e1 =>
        match run_f n e1 false false st with
        | Some (Ret true st1) => Some (Ret false st1)
        | Some (Ret false st1) => Some (Ret true (restore (pos st) (tix st) st1))
        | x => x
        end
    | EQuery e1 =>
        match run_f n e1 false false st with
        | Some (Ret false st1) => Some (Ret true (restore (pos st) (tix st) st1))
        | x => x
        end
    | EStar e1 =>
        match run_f n e1 false false st with
        | Some (Ret false st1) => Some (Ret true (restore (pos st) (tix st) st1))
        | Some (Ret true st1) => run_f n (EStar e1) false false st1
        | x => x
        end
    | EPlus e1 =>
        match run_f n e1 false false st with
        | Some (Ret true st1) => run_f n (EStar e1) false false st1
        | x => x
        end
    | EPush e1 =>
        let p0 := pos st in
        match run_f n e1 pd mk st with
        | Some (Ret true st1) =>
            Some (Ret true (if o_ast o then add o ptx p0 st1 else set_text p0 (pos st1) st1))
        | x => x
        end
    | ESwitch cs d =>
        match rd st with
        | None => Some Crash
        | Some c =>
            match find_case_keys cs c with
            | Some (keys, e1) => run_f n e1 true (1 <? length keys) st
            | None => run_f n d false false st
            end
        end
    end
  end.

(** rule function used as parse entry: p.rules[r]() *)
Definition entry (n : nat) (r : nat) (st : mstate) : option mres :=
  match nth_error g r with
  | Some RNil | None => Some Crash
  | _ => if o_inline o r then Some Crash else run_f n (EName r) false false st
  end.

End Run.

Definition zero_state : mstate := mkst 0 0 [] zero_tok [] (0, 0) [].

(** p.reset(): position, tokenIndex, maxToken and the memo table are re-initialised;
    the token slice behind [tree] keeps its (stale) contents. *)
Definition reset (st : mstate) : mstate := mkst 0 0 (toks st) zero_tok [] (text st) [].

(** Tokens() after a successful Parse: Trim(tokenIndex) *)
Definition live (st : mstate) : list tok := firstn (tix st) (toks st).
