(** The two syntactic premises of the code-level theorems (what peg's front end builds and what Compile's link pass
    leaves: every ordered choice has two alternatives or more, every reference stands for a rule or an action), as
    propositions and as executable checks.  Definitions only: the extracted driver evaluates the checks for every
    grammar of the correspondence run (Extract.v), the proofs about them are in Proofs/EmitUse.v, DeepDefault.v. *)
From PegV Require Import Spec.Syntax Model.Analyses.
From Coq Require Import List Arith Bool.
Import ListNotations.

(** every ordered choice has at least two alternatives *)
Fixpoint alt2 (e : expr) : bool :=
  match e with
  | ESeq es => forallb alt2 es
  | EAlt es => Nat.leb 2 (length es) && forallb alt2 es
  | EAnd e1 | ENot e1 | EQuery e1 | EStar e1 | EPlus e1 | EPush e1 => alt2 e1
  | ESwitch cs d => forallb (fun c => alt2 (snd c)) cs && alt2 d
  | _ => true
  end.
Definition grammar_alt2 (g : grammar) : Prop := forall r b, nth_error g r = Some (RBody b) -> alt2 b = true.
Definition grammar_alt2_b (g : grammar) : bool := forallb (fun rb => match rb with RBody b => alt2 b | _ => true end) g.

(** every name in a rule body stands for a rule or an action *)
Definition closed_names (g : grammar) : Prop :=
  forall r b, nth_error g r = Some (RBody b) -> forall r', In r' (names_of b) -> exists rb, nth_error g r' = Some rb /\ rb <> RNil.

Definition closed_names_b (g : grammar) : bool :=
  forallb (fun rb => match rb with
                     | RBody b => forallb (fun r' => match nth_error g r' with Some RNil | None => false | _ => true end) (names_of b)
                     | _ => true end) g.
