(** The generator's analyses on the linked tree (tree/peg.go): CheckAlwaysSucceeds, countRules
    (reachability + reference counts, which decide -inline and "defined but not used"),
    checkRecursion ("possible infinite left recursion"). *)
From Coq Require Import List ZArith Bool Arith.
From PegV Require Import Spec.Syntax.
Import ListNotations.

Definition memb (x : nat) (l : list nat) : bool := existsb (Nat.eqb x) l.

(** * CheckAlwaysSucceeds *)
Section ASU.
Variable g : grammar.

Fixpoint asu_f (n : nat) (vis : list nat) (e : expr) {struct n} : bool :=
  match n with
  | O => false
  | S n =>
    match e with
    | EName r =>
        match nth_error g r with
        | None => false
        | Some rb =>
            if memb r vis then true
            else match rb with
                 | RBody b => asu_f n (r :: vis) b
                 | RAct _ => true
                 | RNil => true
                 end
        end
    | EAlt es => existsb (asu_f n vis) es
    | ESeq es => forallb (asu_f n vis) es
    | EPush e1 => asu_f n vis e1
    | EAct _ | EQuery _ | EStar _ | ENil => true
    | ESwitch _ _ => false        (* every element is Sequence[PeekFor ..; e]: PeekFor is "false" *)
    | _ => false
    end
  end.

Fixpoint esize (e : expr) : nat :=
  match e with
  | ESeq es | EAlt es => S (fold_right (fun x a => esize x + a) 0 es)
  | EAnd e1 | ENot e1 | EQuery e1 | EStar e1 | EPlus e1 | EPush e1 => S (esize e1)
  | ESwitch cs d => S (fold_right (fun x a => esize (snd x) + a) 0 cs + esize d)
  | _ => 1
  end.
Definition rsize (rb : rbody) : nat := match rb with RBody e => S (esize e) | _ => 1 end.
Definition gsize : nat := fold_right (fun rb a => rsize rb + a) 0 g.

(** rule.CheckAlwaysSucceeds(t), as used at a call site of rule r *)
Definition asu_rule (r : nat) : bool :=
  match nth_error g r with
  | Some (RBody b) => asu_f (S gsize * S (length g)) [] b    (* visited starts empty: the rule itself is not marked *)
  | Some (RAct _) => true
  | Some RNil => true
  | None => false
  end.
End ASU.

(** * countRules: depth-first from the first rule; counts every arrival at a rule *)
Section Count.
Variable g : grammar.

Definition bump (cs : list nat) (r : nat) : list nat :=
  (fix go (l : list nat) (i : nat) := match l with [] => [] | c :: l' => (if i =? r then S c else c) :: go l' (S i) end) cs 0.
Definition setb (bs : list bool) (r : nat) : list bool :=
  (fix go (l : list bool) (i : nat) := match l with [] => [] | c :: l' => (if i =? r then true else c) :: go l' (S i) end) bs 0.

(** state: (reached, counts) *)
Fixpoint count_f (n : nat) (e : expr) (st : list bool * list nat) {struct n} : list bool * list nat :=
  match n with
  | O => st
  | S n =>
    match e with
    | EName r =>
        let '(reached, counts) := st in
        let counts := bump counts r in
        if nth r reached true then (reached, counts)
        else match nth_error g r with
             | Some (RBody b) => count_f n b (setb reached r, counts)
             | _ => (setb reached r, counts)
             end
    | ESeq es | EAlt es => fold_left (fun s x => count_f n x s) es st
    | EAnd e1 | ENot e1 | EQuery e1 | EStar e1 | EPlus e1 | EPush e1 => count_f n e1 st
    | ESwitch cs d =>
        (* UnorderedAlternate of Sequence[PeekFor class; e]: class holds characters only *)
        count_f n d (fold_left (fun s x => count_f n (snd x) s) cs st)
    | _ => st
    end
  end.

Definition count_rules : list bool * list nat :=
  match g with
  | [] => ([], [])
  | _ => count_f (S (gsize g) * S (length g)) (EName 0) (map (fun _ => false) g, map (fun _ => 0) g)
  end.
End Count.

(** -inline: a rule reached exactly once is compiled at its single call site and gets a nil slot,
    except the first emitted rule (label 0), whose function is always emitted (it has no call site
    when its count is 1). *)
Definition inline_table (inline : bool) (g : grammar) : list bool :=
  if inline then
    match map (fun c => c =? 1) (snd (count_rules g)) with
    | [] => []
    | _ :: t => false :: t
    end
  else map (fun _ => false) g.

(** * Diagnostics on the grammar as written: a list of (name, body) definitions in order;
    in this section [EName n] refers to the NAME n (not to a rule index). *)
Definition rawg := list (nat * expr).

Section Diag.
Variable g : rawg.

Fixpoint lookup_def (l : rawg) (n : nat) : option expr :=
  match l with
  | [] => None
  | (m, b) :: l' => if n =? m then Some b else lookup_def l' n
  end.
Definition defined (n : nat) : bool := match lookup_def g n with Some _ => true | None => false end.

Fixpoint names_of (e : expr) : list nat :=
  match e with
  | EName n => [n]
  | ESeq es | EAlt es => flat_map names_of es
  | EAnd e1 | ENot e1 | EQuery e1 | EStar e1 | EPlus e1 | EPush e1 => names_of e1
  | ESwitch cs d => flat_map (fun c => names_of (snd c)) cs ++ names_of d
  | _ => []
  end.

Fixpoint dedup (l : list nat) : list nat :=
  match l with
  | [] => []
  | x :: l' => if memb x l' then dedup l' else x :: dedup l'
  end.

(** "rule 'X' used but not defined" *)
Definition undefined_names : list nat :=
  dedup (filter (fun n => negb (defined n)) (flat_map (fun d => names_of (snd d)) g)).

(** rules defined more than once *)
Fixpoint dups_of (l : list nat) : list nat :=
  match l with
  | [] => []
  | x :: l' => if memb x l' then x :: dups_of l' else dups_of l'
  end.
Definition duplicate_names : list nat := dedup (dups_of (map fst g)).

(** countRules: names reached from the first rule, depth first *)
Fixpoint reach_f (n : nat) (e : expr) (seen : list nat) {struct n} : list nat :=
  match n with
  | O => seen
  | S n =>
    match e with
    | EName m =>
        if memb m seen then seen
        else match lookup_def g m with
             | Some b => reach_f n b (m :: seen)
             | None => m :: seen
             end
    | ESeq es | EAlt es => fold_left (fun s x => reach_f n x s) es seen
    | EAnd e1 | ENot e1 | EQuery e1 | EStar e1 | EPlus e1 | EPush e1 => reach_f n e1 seen
    | _ => seen
    end
  end.

Definition rawsize : nat := fold_right (fun d a => S (esize (snd d)) + a) 0 g.

Definition reached_names : list nat :=
  match g with
  | [] => []
  | (n0, _) :: _ => reach_f (S rawsize * S (length g)) (EName n0) []
  end.

(** "rule 'X' defined but not used" *)
Definition unused_names : list nat :=
  filter (fun n => negb (memb n reached_names)) (dedup (map fst g)).

(** checkRecursion (after the fix): returns (must consume, names warned in order).
    Structural on the expression; the fuel is only spent when a rule body is entered (the path grows
    by a new name each time, so [S (length g)] is always enough: Proofs/LeftRec.v). *)
Fixpoint chk_f (n : nat) : list nat -> expr -> bool * list nat :=
  fun path =>
  fix chk_e (e : expr) : bool * list nat :=
    match e with
    | EName m =>
        match lookup_def g m with
        | None => (false, [])
        | Some b =>
            if memb m path then (false, [m])
            else match n with
                 | O => (false, [])
                 | S n' => chk_f n' (m :: path) b
                 end
        end
    | EAlt es =>
        fold_left (fun acc x => let r := chk_e x in (fst acc && fst r, snd acc ++ snd r)) es (true, [])
    | ESeq es =>
        (* elements in order until one consumes *)
        (fix go (l : list expr) (w : list nat) : bool * list nat :=
           match l with
           | [] => (false, w)
           | x :: l' => let r := chk_e x in
                        if fst r then (true, w ++ snd r) else go l' (w ++ snd r)
           end) es []
    | EAnd e1 | ENot e1 | EQuery e1 | EStar e1 => (false, snd (chk_e e1))
    | EPlus e1 | EPush e1 => chk_e e1
    | EDot | EChar _ | ERange _ _ => (true, [])
    | _ => (false, [])
    end.

(** one run per definition, in order *)
Definition leftrec_warnings : list nat :=
  flat_map (fun d => snd (chk_f (S (length g)) [] (EName (fst d)))) g.

(** ** what the warning is about: a rule that can come back to itself in head position.
    [nullable]: may succeed without consuming (least fixed point; lookahead, ? and * are transparent,
    and so is a name without definition, which is reported separately).
    [hsub b e]: the sub-expression e of b can be reached before b has consumed anything. *)
Inductive nullable : expr -> Prop :=
| nl_name m b : lookup_def g m = Some b -> nullable b -> nullable (EName m)
| nl_undef m : lookup_def g m = None -> nullable (EName m)
| nl_alt es x : In x es -> nullable x -> nullable (EAlt es)
| nl_seq es : Forall nullable es -> nullable (ESeq es)
| nl_and e : nullable (EAnd e)
| nl_not e : nullable (ENot e)
| nl_query e : nullable (EQuery e)
| nl_star e : nullable (EStar e)
| nl_plus e : nullable e -> nullable (EPlus e)
| nl_push e : nullable e -> nullable (EPush e)
| nl_pred k : nullable (EPred k)
| nl_state k : nullable (EState k)
| nl_act k : nullable (EAct k)
| nl_nil : nullable ENil
| nl_switch cs d : nullable (ESwitch cs d).      (* never present in a grammar as written *)

Inductive hsub (b : expr) : expr -> Prop :=
| hs_refl : hsub b b
| hs_alt es x : hsub b (EAlt es) -> In x es -> hsub b x
| hs_seq l1 x l2 : hsub b (ESeq (l1 ++ x :: l2)) -> Forall nullable l1 -> hsub b x
| hs_and e : hsub b (EAnd e) -> hsub b e
| hs_not e : hsub b (ENot e) -> hsub b e
| hs_query e : hsub b (EQuery e) -> hsub b e
| hs_star e : hsub b (EStar e) -> hsub b e
| hs_plus e : hsub b (EPlus e) -> hsub b e
| hs_push e : hsub b (EPush e) -> hsub b e.

(** rule m can call rule k without having consumed *)
Definition hstep (m k : nat) : Prop := exists b, lookup_def g m = Some b /\ hsub b (EName k).

End Diag.

(** executable closure check used as a (always re-evaluated) side condition of the exactness theorem *)
Definition closed_b (g : rawg) (s : list nat) : bool :=
  match g with
  | [] => true
  | (n0, _) :: _ =>
      memb n0 s &&
      forallb (fun m => match lookup_def g m with
                        | Some b => forallb (fun k => memb k s) (names_of b)
                        | None => true
                        end) s
  end.
