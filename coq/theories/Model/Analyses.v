(** The generator's analyses on the linked tree (tree/peg.go): CheckAlwaysSucceeds, countRules
    (reachability + reference counts, which decide -inline and "defined but not used"),
    checkRecursion ("possible infinite left recursion"). *)
From Coq Require Import List ZArith Bool Arith.
From PegV Require Import Spec.Syntax.
Import ListNotations.

Definition memb (x : nat) (l : list nat) : bool := existsb (Nat.eqb x) l.

(** * CheckAlwaysSucceeds *)
Section ASU.
Variable g : grammar.

Fixpoint asu_f (n : nat) (vis : list nat) (e : expr) {struct n} : bool :=
  match n with
  | O => false
  | S n =>
    match e with
    | EName r =>
        match nth_error g r with
        | None => false
        | Some rb =>
            if memb r vis then true
            else match rb with
                 | RBody b => asu_f n (r :: vis) b
                 | RAct _ => true
                 | RNil => true
                 end
        end
    | EAlt es => existsb (asu_f n vis) es
    | ESeq es => forallb (asu_f n vis) es
    | EPush e1 => asu_f n vis e1
    | EAct _ | EQuery _ | EStar _ | ENil => true
    | ESwitch _ _ => false        (* every element is Sequence[PeekFor ..; e]: PeekFor is "false" *)
    | _ => false
    end
  end.

Fixpoint esize (e : expr) : nat :=
  match e with
  | ESeq es | EAlt es => S (fold_right (fun x a => esize x + a) 0 es)
  | EAnd e1 | ENot e1 | EQuery e1 | EStar e1 | EPlus e1 | EPush e1 => S (esize e1)
  | ESwitch cs d => S (fold_right (fun x a => esize (snd x) + a) 0 cs + esize d)
  | _ => 1
  end.
Definition rsize (rb : rbody) : nat := match rb with RBody e => S (esize e) | _ => 1 end.
Definition gsize : nat := fold_right (fun rb a => rsize rb + a) 0 g.

(** rule.CheckAlwaysSucceeds(t), as used at a call site of rule r *)
Definition asu_rule (r : nat) : bool :=
  match nth_error g r with
  | Some (RBody b) => asu_f (S gsize * S (length g)) [] b    (* visited starts empty: the rule itself is not marked *)
  | Some (RAct _) => true
  | Some RNil => true
  | None => false
  end.
End ASU.

(** * countRules: depth-first from the first rule; counts every arrival at a rule *)
Section Count.
Variable g : grammar.

Definition bump (cs : list nat) (r : nat) : list nat :=
  (fix go (l : list nat) (i : nat) := match l with [] => [] | c :: l' => (if i =? r then S c else c) :: go l' (S i) end) cs 0.
Definition setb (bs : list bool) (r : nat) : list bool :=
  (fix go (l : list bool) (i : nat) := match l with [] => [] | c :: l' => (if i =? r then true else c) :: go l' (S i) end) bs 0.

(** state: (reached, counts) *)
Fixpoint count_f (n : nat) (e : expr) (st : list bool * list nat) {struct n} : list bool * list nat :=
  match n with
  | O => st
  | S n =>
    match e with
    | EName r =>
        let '(reached, counts) := st in
        let counts := bump counts r in
        if nth r reached true then (reached, counts)
        else match nth_error g r with
             | Some (RBody b) => count_f n b (setb reached r, counts)
             | _ => (setb reached r, counts)
             end
    | ESeq es | EAlt es => fold_left (fun s x => count_f n x s) es st
    | EAnd e1 | ENot e1 | EQuery e1 | EStar e1 | EPlus e1 | EPush e1 => count_f n e1 st
    | ESwitch cs d =>
        (* UnorderedAlternate of Sequence[PeekFor class; e]: class holds characters only *)
        count_f n d (fold_left (fun s x => count_f n (snd x) s) cs st)
    | _ => st
    end
  end.

Definition count_rules : list bool * list nat :=
  match g with
  | [] => ([], [])
  | _ => count_f (S (gsize g) * S (length g)) (EName 0) (map (fun _ => false) g, map (fun _ => 0) g)
  end.
End Count.

(** -inline: a rule reached exactly once is compiled at its single call site and gets a nil slot,
    except the first emitted rule (label 0), whose function is always emitted (it has no call site
    when its count is 1). *)
Definition inline_table (inline : bool) (g : grammar) : list bool :=
  if inline then
    match map (fun c => c =? 1) (snd (count_rules g)) with
    | [] => []
    | _ :: t => false :: t
    end
  else map (fun _ => false) g.
