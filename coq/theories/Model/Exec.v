(** Execution of the emitted code (Model/SEmit.v): statements run in order; a goto is resolved in the statement
    list it is raised in or, failing that, in an enclosing one (Go's scoping of labels: never into a block);
    a call runs the callee's function body.  Relational, big-step; the state is the machine state of
    Model/Machine.v plus the saved positionN / tokenIndexN variables and the predicate variable. *)
From Coq Require Import List Arith Bool ZArith.
From PegV Require Import Spec.Syntax Spec.Peg Model.Machine Model.SEmit.
Import ListNotations.

Record xst := mkx { xm : mstate; xenv : nat -> nat * nat; xpf : bool }.
Definition setm (x : xst) (m : mstate) : xst := mkx m (xenv x) (xpf x).
Definition setenv (x : xst) (n : nat) (v : nat * nat) : xst :=
  mkx (xm x) (fun j => if Nat.eqb j n then v else xenv x j) (xpf x).
Definition setpf (x : xst) (b : bool) : xst := mkx (xm x) (xenv x) b.

Inductive outcome :=
| OFall (x : xst)                       (* ran to the end of the list *)
| OGoto (l : nat) (x : xst)             (* a goto whose label is not in this list *)
| OBrk (x : xst)                        (* break, inside a switch clause *)
| ORet (b : bool) (m : mstate)          (* return b *)
| OCrash.                               (* index out of range, nil function *)

(** the statements behind the first top-level [lN:] of a list *)
Fixpoint after_label (l : nat) (c : list scode) : option (list scode) :=
  match c with
  | [] => None
  | SLbl n :: c' => if Nat.eqb n l then Some c' else after_label l c'
  | _ :: c' => after_label l c'
  end.

Fixpoint find_scase (cs : list (list rune * list scode)) (c : rune) : option (list scode) :=
  match cs with
  | [] => None
  | (keys, b) :: cs' => if existsb (Z.eqb c) keys then Some b else find_scase cs' c
  end.

Section Exec.
Variable g : grammar.
Variable ptx : nat.
Variable buf : list rune.
Variable penv : nat -> nat -> bool.
Variable o : opts.
Variable fn : nat -> option (list scode).      (* the function in slot r of the rule table; None = nil *)

Notation rd := (rd buf).

Definition env0 : nat -> nat * nat := fun _ => (0, 0).

(** a test that reads the buffer: crash, pass (fall through) or fail (jump) *)
Definition rdtest (ok : rune -> bool) (l : nat) (x : xst) : outcome :=
  match rd (xm x) with
  | None => OCrash
  | Some c => if ok c then OFall x else OGoto l x
  end.

Inductive xi : scode -> xst -> outcome -> Prop :=
| xi_inc x : xi SInc x (OFall (setm x (advance (xm x))))
| xi_callasu r x res : xcall r (xm x) res ->
    xi (SCallAsu r) x (match res with Crash => OCrash | Ret _ m' => OFall (setm x m') end)
| xi_state k x : xi (SState k) x (OFall x)
| xi_predset k x : xi (SPredSet k) x (OFall (setpf x (penv k (pos (xm x)))))
| xi_addact r x : xi (SAddAct r) x (OFall (setm x (add o r (pos (xm x)) (xm x))))
| xi_logact k x : xi (SLogAct k) x (OFall (setm x (log_action k (xm x))))
| xi_dot l x :
    xi (SCond QDot l) x (match mterm buf (fun c => negb (Z.eqb c endSymbol)) (xm x) with
                         | Crash => OCrash | Ret true m' => OFall (setm x m') | Ret false m' => OGoto l (setm x m') end)
| xi_char c l x : xi (SCond (QChar c) l) x (rdtest (Z.eqb c) l x)
| xi_range lo hi l x : xi (SCond (QRange lo hi) l) x (rdtest (in_range lo hi) l x)
| xi_call r l x res : xcall r (xm x) res ->
    xi (SCond (QCall r) l) x (match res with Crash => OCrash | Ret true m' => OFall (setm x m') | Ret false m' => OGoto l (setm x m') end)
| xi_predtest l x : xi (SCond QPred l) x (if xpf x then OFall x else OGoto l x)
| xi_lbl n x : xi (SLbl n) x (OFall x)
| xi_jmp n x : xi (SJmp n) x (OGoto n x)
| xi_save n x : xi (SSave n) x (OFall (setenv x n (pos (xm x), tix (xm x))))
| xi_restore n x : xi (SRestore n) x (OFall (setm x (restore (fst (xenv x n)) (snd (xenv x n)) (xm x))))
| xi_savep n x : xi (SSaveP n) x (OFall (setenv x n (pos (xm x), snd (xenv x n))))
| xi_addrule r n x : xi (SAddRule r n) x (OFall (setm x (add o r (fst (xenv x n)) (xm x))))
| xi_capture n x : xi (SCapture n) x (OFall (setm x (set_text (fst (xenv x n)) (pos (xm x)) (xm x))))
| xi_memocheck r x :
    xi (SMemoCheck r) x (match lookup (memo (xm x)) r (pos (xm x)) with
                         | Some me => match memoized me (xm x) with Crash => OCrash | Ret b m' => ORet b m' end
                         | None => OFall x end)
| xi_memo r n b x : xi (SMemo r n b) x (OFall (setm x (memoize o r (fst (xenv x n)) (snd (xenv x n)) b (xm x))))
| xi_return b x : xi (SReturn b) x (ORet b (xm x))
| xi_brk x : xi SBrk x (OBrk x)
| xi_block b x out : xs b b x out -> xi (SBlock b) x out
| xi_switch_crash cs d x : rd (xm x) = None -> xi (SSwitch cs d) x OCrash
| xi_switch cs d x c out : rd (xm x) = Some c ->
    xs (match find_scase cs c with Some b => b | None => d end) (match find_scase cs c with Some b => b | None => d end) x out ->
    xi (SSwitch cs d) x (match out with OBrk x' => OFall x' | _ => out end)

(** [xs c k x out]: run the suffix [k] of the list [c] *)
with xs : list scode -> list scode -> xst -> outcome -> Prop :=
| xs_nil c x : xs c [] x (OFall x)
| xs_fall c i k x x' out : xi i x (OFall x') -> xs c k x' out -> xs c (i :: k) x out
| xs_goto_here c i k x l x' k2 out : xi i x (OGoto l x') -> after_label l c = Some k2 -> xs c k2 x' out -> xs c (i :: k) x out
| xs_goto_out c i k x l x' : xi i x (OGoto l x') -> after_label l c = None -> xs c (i :: k) x (OGoto l x')
| xs_brk c i k x x' : xi i x (OBrk x') -> xs c (i :: k) x (OBrk x')
| xs_ret c i k x b m : xi i x (ORet b m) -> xs c (i :: k) x (ORet b m)
| xs_crash c i k x : xi i x OCrash -> xs c (i :: k) x OCrash

(** calling the function in slot r *)
with xcall : nat -> mstate -> mres -> Prop :=
| xcall_nil r m : fn r = None -> xcall r m Crash
| xcall_ret r body m b m' : fn r = Some body -> xs body body (mkx m env0 false) (ORet b m') -> xcall r m (Ret b m')
| xcall_crash r body m : fn r = Some body -> xs body body (mkx m env0 false) OCrash -> xcall r m Crash.

(** a jump to [l] seen from the list [c]: continue behind the label, or leave the list *)
Definition jump (c : list scode) (l : nat) (x : xst) (out : outcome) : Prop :=
  match after_label l c with
  | Some k => xs c k x out
  | None => out = OGoto l x
  end.

End Exec.
