(** The template runtime around the rule functions (tree/peg.go.tmpl): parse entry, Execute,
    AST and the tree printer, translatePositions and the fields of the error message. *)
From Coq Require Import List ZArith Bool Arith.
From PegV Require Import Spec.Syntax Spec.Peg Spec.Tokens Model.Machine.
Import ListNotations.

(** * Execute: walk the tokens; PegText sets text/begin/end, ActionK runs action K *)
Fixpoint execute (g : grammar) (ptx : nat) (ts : list tok) (txt : nat * nat) : list (nat * (nat * nat)) :=
  match ts with
  | [] => []
  | (r, (b, e)) :: ts' =>
      if r =? ptx then execute g ptx ts' (b, e)
      else match nth_error g r with
           | Some (RAct k) => (k, txt) :: execute g ptx ts' txt
           | _ => execute g ptx ts' txt
           end
  end.

(** * AST(): the stack algorithm at peg.go.tmpl "func (t *tokens[U]) AST()" *)
Fixpoint absorb (t : tok) (stack kids : list rose) : list rose * list rose :=
  match stack with
  | Rose s ks :: rest =>
      if ((tk_begin t <=? tk_begin s) && (tk_end s <=? tk_end t))%bool
      then absorb t rest (Rose s ks :: kids)
      else (kids, stack)
  | [] => (kids, [])
  end.

Definition ast_step (stack : list rose) (t : tok) : list rose :=
  if tk_begin t =? tk_end t then stack
  else let '(kids, rest) := absorb t stack [] in Rose t kids :: rest.

Definition ast_stack (ts : list tok) : list rose := fold_left ast_step ts [].
(** AST() returns the top of the stack (nil when empty) *)
Definition ast (ts : list tok) : option rose := hd_error (ast_stack ts).

(** the printer: one line per node, depth = nesting, then the node's up-chain, then its next *)
Definition print_rose := preorder.
Definition print_tree (ts : list tok) : list (nat * tok) :=
  match ast ts with Some t => print_rose 0 t | None => [] end.

(** * translatePositions / Error() (after the "fix:" commit): 1-based line, 1-based column *)
Definition newline : rune := 10%Z.

(** scan of the loop: for i, c := range buffer *)
Fixpoint translate_f (b : list rune) (i line symbol : nat) (want : list nat) (acc : list (nat * (nat * nat)))
  : list (nat * (nat * nat)) :=
  match b with
  | [] => acc
  | c :: b' =>
      let symbol := S symbol in
      (* record every wanted position equal to i (positions are sorted) *)
      let fix take (w : list nat) (acc : list (nat * (nat * nat))) :=
          match w with
          | p :: w' => if p =? i then take w' (acc ++ [(p, (line, symbol))]) else (w, acc)
          | [] => ([], acc)
          end in
      let '(want', acc') := take want acc in
      match want' with
      | [] => acc'
      | _ => if Z.eqb c newline then translate_f b' (S i) (S line) 0 want' acc'
             else translate_f b' (S i) line symbol want' acc'
      end
  end.

Definition translate (sb : list rune) (positions : list nat) : list (nat * (nat * nat)) :=
  translate_f sb 0 1 0 positions [].

Fixpoint assoc (l : list (nat * (nat * nat))) (k : nat) : nat * nat :=
  match l with
  | [] => (0, 0)                                  (* Go map zero value *)
  | (k', v) :: l' => if k =? k' then v else assoc l' k
  end.

(** fields of the error message for token t on buffer sb (with sentinel):
    (rule, (line,col) of begin, (line,col) of end, quoted slice) ; None = slice out of range (panic) *)
Definition error_fields (sb : list rune) (t : tok) : option (nat * (nat * nat) * (nat * nat) * list rune) :=
  let b := tk_begin t in let e := tk_end t in
  let tr := translate sb (if b <=? e then [b; e] else [e; b]) in
  if ((b <=? e) && (e <=? length sb))%bool
  then Some (tk_rule t, assoc tr b, assoc tr e, firstn (e - b) (skipn b sb))
  else None.

(** spec of line/column: 1 + newlines before i ; 1 + distance from the start of i's line *)
Fixpoint linecol_f (b : list rune) (i line col : nat) : nat * nat :=
  match i, b with
  | O, _ => (line, col)
  | S i', c :: b' => if Z.eqb c newline then linecol_f b' i' (S line) 1 else linecol_f b' i' line (S col)
  | S _, [] => (line, col)
  end.
Definition linecol (b : list rune) (i : nat) : nat * nat := linecol_f b i 1 1.

(** * One history step on a long-lived parser: Buffer := input; Reset(); Parse(r) *)
Section Parse.
Variable g : grammar.
Variable ptx : nat.
Variable penv : list rune -> nat -> nat -> bool.
Variable o : opts.

Inductive presult :=
| PCrash
| PTimeout
| PDone (ok : bool) (st : mstate).

Definition parse_from (n : nat) (st0 : mstate) (buf : list rune) (r : nat) : presult :=
  match entry g ptx buf (penv buf) o n r (reset st0) with
  | None => PTimeout
  | Some Crash => PCrash
  | Some (Ret b st) => PDone b st
  end.
End Parse.
