(** The tree-builder methods peg.peg's actions call (tree/peg.go: AddPackage ... AddComment), as names.
    Generated/PegPeg.v lists, for each action of peg.peg, the calls its text makes. *)
From Coq Require Import List ZArith.
From PegV Require Import Spec.Syntax.

Inductive bcall :=
| CAddPackage | CAddPeg | CAddState | CAddImportAlias | CAddImport | CAddRule | CAddExpression
| CAddAlternate | CAddNil | CAddSequence | CAddPredicate | CAddStateChange | CAddPeekFor | CAddPeekNot
| CAddQuery | CAddStar | CAddPlus | CAddName | CAddDot | CAddAction | CAddPush
| CAddCharacter | CAddDoubleCharacter | CAddHexaCharacter | CAddOctalCharacter | CAddRange | CAddDoubleRange
| CAddSpace | CAddComment.

(** the argument: none, the captured text, or a string constant *)
Inductive carg := ANone | AText | AConst (s : list rune).
