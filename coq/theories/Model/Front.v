(** The front end's tree builder (tree/peg.go: AddName ... AddPush, addList, addFix) as a stack machine,
    the escape decoders (AddCharacter / AddHexaCharacter / AddOctalCharacter), and, for each construct of
    the documented .peg syntax, the sequence of builder calls peg.peg's actions make for it. *)
From Coq Require Import List ZArith Bool Arith.
From PegV Require Import Spec.Syntax.
Import ListNotations.
Open Scope Z_scope.

(** * escape decoding *)
(** strconv.ParseInt(text, base, bits) on digit values: saturates at 2^(bits-1)-1 *)
Definition digits_value (base : Z) (ds : list Z) : Z := fold_left (fun a d => a * base + d) ds 0.
Definition parse_int (base bits : Z) (ds : list Z) : Z := Z.min (digits_value base ds) (2 ^ (bits - 1) - 1).
(** string(rune(v)) then read back as a rune: invalid code points become U+FFFD *)
Definition to_rune (v : Z) : Z :=
  if (0 <=? v) && (v <=? 1114111) && negb ((55296 <=? v) && (v <=? 57343)) then v else 65533.
Definition add_hexa (ds : list Z) : Z := to_rune (parse_int 16 32 ds).
Definition add_octal (ds : list Z) : Z := to_rune (parse_int 8 32 ds).

(** ASCII case mapping (strings.ToLower / ToUpper on [a-zA-Z]; other characters unchanged here) *)
Definition lower (c : Z) : Z := if (65 <=? c) && (c <=? 90) then c + 32 else c.
Definition upper (c : Z) : Z := if (97 <=? c) && (c <=? 122) then c - 32 else c.

(** * builder calls *)
Inductive bop :=
| BName (n : nat) | BDot | BChar (c : Z) | BDoubleChar (c : Z) | BHexa (ds : list Z) | BOctal (ds : list Z)
| BPred (k : nat) | BState (k : nat) | BNil | BAct (k : nat)
| BAlternate | BSequence | BRange | BDoubleRange
| BPeekFor | BPeekNot | BQuery | BStar | BPlus | BPush.

Definition add_list_alt (a b : expr) : expr := match b with EAlt l => EAlt (l ++ [a]) | _ => EAlt [b; a] end.
Definition add_list_seq (a b : expr) : expr := match b with ESeq l => ESeq (l ++ [a]) | _ => ESeq [b; a] end.

(** one call; None = the Go code would pop an empty stack (panic "tree is empty") or misuse a node *)
Definition bstep (stk : list expr) (o : bop) : option (list expr) :=
  match o with
  | BName n => Some (EName n :: stk)
  | BDot => Some (EDot :: stk)
  | BChar c => Some (EChar c :: stk)
  | BDoubleChar c => Some (EAlt [EChar (lower c); EChar (upper c)] :: stk)
  | BHexa ds => Some (EChar (add_hexa ds) :: stk)
  | BOctal ds => Some (EChar (add_octal ds) :: stk)
  | BPred k => Some (EPred k :: stk)
  | BState k => Some (EState k :: stk)
  | BNil => Some (ENil :: stk)
  | BAct k => Some (EAct k :: stk)
  | BAlternate => match stk with a :: b :: r => Some (add_list_alt a b :: r) | _ => None end
  | BSequence => match stk with a :: b :: r => Some (add_list_seq a b :: r) | _ => None end
  | BRange => match stk with EChar hi :: EChar lo :: r => Some (ERange lo hi :: r) | _ => None end
  | BDoubleRange =>
      match stk with
      | EChar hi :: EChar lo :: r => Some (EAlt [ERange (lower lo) (lower hi); ERange (upper lo) (upper hi)] :: r)
      | _ => None
      end
  | BPeekFor => match stk with a :: r => Some (EAnd a :: r) | _ => None end
  | BPeekNot => match stk with a :: r => Some (ENot a :: r) | _ => None end
  | BQuery => match stk with a :: r => Some (EQuery a :: r) | _ => None end
  | BStar => match stk with a :: r => Some (EStar a :: r) | _ => None end
  | BPlus => match stk with a :: r => Some (EPlus a :: r) | _ => None end
  | BPush => match stk with a :: r => Some (EPush a :: r) | _ => None end
  end.

Fixpoint brun (ops : list bop) (stk : list expr) : option (list expr) :=
  match ops with
  | [] => Some stk
  | o :: ops' => match bstep stk o with Some stk' => brun ops' stk' | None => None end
  end.

(** * the documented surface syntax (expression level) *)
Inductive schar := SC (c : Z) | SHex (ds : list Z) | SOct (ds : list Z).
Inductive citem := CChar (c : schar) | CRange (lo hi : schar).
Inductive sx :=
| XDot | XName (n : nat) | XAct (k : nat) | XPred (k : nat) | XState (k : nat) | XNil
| XLit (cs : list schar)                    (* 'abc' *)
| XILit (cs : list schar)                   (* "abc" *)
| XClass (neg insens : bool) (items : list citem)
| XSeq (l : list sx) | XAlt (l : list sx) (trailing : bool)
| XAnd (e : sx) | XNot (e : sx) | XQuery (e : sx) | XStar (e : sx) | XPlus (e : sx) | XPush (e : sx) | XGroup (e : sx).

Definition is_letter (c : Z) : bool := ((65 <=? c) && (c <=? 90)) || ((97 <=? c) && (c <=? 122)).

Definition char_ops (c : schar) : list bop :=
  match c with SC v => [BChar v] | SHex ds => [BHexa ds] | SOct ds => [BOctal ds] end.
(** DoubleChar <- Escape / <[a-zA-Z]> AddDoubleCharacter / <.> AddCharacter *)
Definition dchar_ops (c : schar) : list bop :=
  match c with SC v => if is_letter v then [BDoubleChar v] else [BChar v] | _ => char_ops c end.

(** x1 (x2 OP) (x3 OP) ... *)
Definition chain_ops (op : bop) (parts : list (list bop)) : list bop :=
  match parts with
  | [] => []
  | p :: ps => p ++ flat_map (fun q => q ++ [op]) ps
  end.

Definition item_ops (insens : bool) (i : citem) : list bop :=
  match i with
  | CChar c => if insens then dchar_ops c else char_ops c
  | CRange lo hi => char_ops lo ++ char_ops hi ++ [if insens then BDoubleRange else BRange]
  end.

Fixpoint ops_of (t : sx) : list bop :=
  match t with
  | XDot => [BDot]
  | XName n => [BName n]
  | XAct k => [BAct k]
  | XPred k => [BPred k]
  | XState k => [BState k]
  | XNil => [BNil]
  (* an empty literal is a nil node, an empty class is !nil (fix 10b1614; before it they pushed nothing) *)
  | XLit [] | XILit [] => [BNil]
  | XLit cs => chain_ops BSequence (map char_ops cs)
  | XILit cs => chain_ops BSequence (map dchar_ops cs)
  | XClass false _ [] => [BNil; BPeekNot]
  | XClass neg insens items =>
      chain_ops BAlternate (map (item_ops insens) items) ++ (if neg then [BPeekNot; BDot; BSequence] else [])
  | XSeq l => chain_ops BSequence (map ops_of l)
  | XAlt l trailing => chain_ops BAlternate (map ops_of l) ++ (if trailing then [BNil; BAlternate] else [])
  | XAnd e => ops_of e ++ [BPeekFor]
  | XNot e => ops_of e ++ [BPeekNot]
  | XQuery e => ops_of e ++ [BQuery]
  | XStar e => ops_of e ++ [BStar]
  | XPlus e => ops_of e ++ [BPlus]
  | XPush e => ops_of e ++ [BPush]
  | XGroup e => ops_of e
  end.

(** the tree the front end builds for a surface expression *)
Definition elab (t : sx) : option expr :=
  match brun (ops_of t) [] with Some [e] => Some e | _ => None end.

(** well-formed surface expressions: non-empty lists; a negated class has members ([^] is the class of '^') *)
Fixpoint sx_ok (t : sx) : bool :=
  match t with
  | XLit cs | XILit cs => true
  | XClass neg _ items => negb (neg && match items with [] => true | _ => false end)
  | XSeq l => negb (match l with [] => true | _ => false end) && forallb sx_ok l
  | XAlt l _ => negb (match l with [] => true | _ => false end) && forallb sx_ok l
  | XAnd e | XNot e | XQuery e | XStar e | XPlus e | XPush e | XGroup e => sx_ok e
  | _ => true
  end.
