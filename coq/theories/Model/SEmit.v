(** The emitted code with its statements: [semit] follows [Emit.emit] construct by construct and says which
    statement each opaque [KSt] / conditional jump of the skeleton is ([forget (semit ..) = emit ..],
    Proofs/SEmitSound.v).  Its execution is defined in Model/Exec.v. *)
From Coq Require Import List Arith Bool ZArith.
From PegV Require Import Spec.Syntax Model.Analyses Model.Emit.
Import ListNotations.

(** "if <test fails> { goto l }" *)
Inductive cond :=
| QDot                                 (* !matchDot() *)
| QChar (c : rune)                     (* buffer[position] != c *)
| QRange (lo hi : rune)                (* c := buffer[position]; c < lo || c > hi *)
| QCall (r : nat)                      (* !_rules[r]() *)
| QPred.                           (* !predicate *)

Inductive scode :=
| SInc                                 (* position++ *)
| SCallAsu (r : nat)                   (* _rules[r]() *)
| SState (k : nat)                     (* the text of a !{...} *)
| SPredSet (k : nat)                   (* predicate := <text of &{...}> *)
| SAddAct (r : nat)                    (* add(ruleActionK, position) *)
| SLogAct (k : nat)                    (* -noast: the action's text, in place *)
| SCond (c : cond) (l : nat)
| SLbl (n : nat) | SJmp (n : nat) | SSave (n : nat) | SRestore (n : nat) | SSaveP (n : nat)
| SAddRule (r n : nat)                 (* add(rule r, positionN) *)
| SCapture (n : nat)                   (* -noast: begin := positionN; end := position; text = string(buffer[begin:end]) *)
| SMemoCheck (r : nat)                 (* if memoized, ok := memoization[{r, position}]; ok { return memoizedResult(memoized) } *)
| SMemo (r n : nat) (b : bool)         (* memoize(r, positionN, tokenIndexN, b) *)
| SReturn (b : bool)
| SBrk
| SBlock (b : list scode)
| SSwitch (cases : list (list rune * list scode)) (dflt : list scode).

Section SEmit.
Variable g : grammar.
Variable ptx : nat.
Variable ast : bool.
Variable inl : nat -> bool.
Variable asu : nat -> bool.
Variable used : nat -> bool.

Definition slbl_if (n : nat) : list scode := if used n then [SLbl n] else [].
Definition sres := (list scode * nat * bool)%type.

Fixpoint sseq_emit (emit : expr -> nat -> bool -> bool -> nat -> sres) (es : list expr) (ko : nat) (pd mk : bool) (l : nat) (ll : bool) : sres :=
  match es with
  | [] => ([], l, ll)
  | x :: es' =>
      let '(c, l1, ll1) := emit x ko pd mk l in
      let '(c', l2, ll2) := sseq_emit emit es' ko false false l1 (match c with [] => ll | _ => ll1 end) in
      (c ++ c', l2, ll2)
  end.

Fixpoint salt_emit (emit : expr -> nat -> bool -> bool -> nat -> sres) (es : list expr) (ko ok : nat) (l : nat) : list scode * nat :=
  match es with
  | [] => ([], l)
  | [x] => let '(c, l1, _) := emit x ko false false l in (c, l1)
  | x :: es' =>
      let next := l in
      let '(c, l1, _) := emit x next false false (S l) in
      let '(c', l2) := salt_emit emit es' ko ok l1 in
      (c ++ [SJmp ok] ++ slbl_if next ++ [SRestore ok] ++ c', l2)
  end.

Fixpoint scases_emit (emit : expr -> nat -> bool -> bool -> nat -> sres) (cs : list (list rune * expr)) (ko : nat) (l : nat) : list (list rune * list scode) * nat :=
  match cs with
  | [] => ([], l)
  | (keys, b) :: cs' =>
      let '(c, l1, ll) := emit b ko true (Nat.ltb 1 (length keys)) l in
      let '(rest, l2) := scases_emit emit cs' ko l1 in
      ((keys, c ++ if ll then [SBrk] else []) :: rest, l2)
  end.

Definition sipush_emit (emit : expr -> nat -> bool -> bool -> nat -> sres) (r : nat) (ko : nat) (pd mk : bool) (l : nat) : sres :=
  match nth_error g r with
  | Some (RBody b) =>
      let '(c, l1, _) := emit b ko pd mk (S l) in
      ([SBlock (SSaveP l :: c ++ [SAddRule r l])], l1, false)
  | Some (RAct k) => ([SBlock [if ast then SAddAct r else SLogAct k]], S l, false)
  | _ => ([SBlock [SSaveP l; SAddRule r l]], S l, false)
  end.

Fixpoint semit (n : nat) (e : expr) (ko : nat) (pd mk : bool) (l : nat) {struct n} : sres :=
  match n with
  | O => ([], l, false)
  | S n =>
    match e with
    | EDot => if pd then ([], l, false) else ([SCond QDot ko], l, false)
    | EChar c => if (pd && negb mk)%bool then ([SInc], l, false) else ([SCond (QChar c) ko; SInc], l, false)
    | ERange lo hi => if pd then ([SInc], l, false) else ([SCond (QRange lo hi) ko; SInc], l, false)
    | EName r =>
        if inl r then let '(c, l1, _) := sipush_emit (semit n) r ko pd mk l in (c, l1, false)
        else if asu r then ([SCallAsu r], l, false) else ([SCond (QCall r) ko], l, false)
    | EPred k => ([SBlock [SPredSet k; SCond QPred ko]], l, false)
    | EState k => ([SState k], l, false)
    | EAct _ | ENil => ([], l, false)
    | ESeq es => sseq_emit (semit n) es ko pd mk l false
    | EAlt es =>
        let ok := l in
        let '(c, l1) := salt_emit (semit n) es ko ok (S l) in
        ([SBlock (SSave ok :: c)] ++ slbl_if ok, l1, used ok)
    | ESwitch cs d =>
        let ok := l in
        let '(clauses, l1) := scases_emit (semit n) cs ko (S l) in
        let '(cd, l2, lld) := semit n d ko false false l1 in
        ([SBlock [SSwitch clauses (cd ++ if lld then [SBrk] else [])]] ++ slbl_if ok, l2, used ok)
    | EAnd e1 =>
        let ok := l in
        let '(c, l1, _) := semit n e1 ko false false (S l) in
        ([SBlock (SSave ok :: c ++ [SRestore ok])], l1, false)
    | ENot e1 =>
        let ok := l in
        let '(c, l1, _) := semit n e1 ok false false (S l) in
        ([SBlock (SSave ok :: c ++ [SJmp ko] ++ slbl_if ok ++ [SRestore ok])], l1, false)
    | EQuery e1 =>
        let qko := l in let qok := S l in
        let '(c, l1, _) := semit n e1 qko false false (S (S l)) in
        ([SBlock (SSave qko :: c ++ [SJmp qok] ++ slbl_if qko ++ [SRestore qko])] ++ slbl_if qok, l1, used qok)
    | EStar e1 =>
        let again := l in let out := S l in
        let '(c, l1, _) := semit n e1 out false false (S (S l)) in
        (slbl_if again ++ [SBlock (SSave out :: c ++ [SJmp again] ++ slbl_if out ++ [SRestore out])], l1, false)
    | EPlus e1 =>
        let again := l in let out := S l in
        let '(c1, l1, _) := semit n e1 ko false false (S (S l)) in
        let '(c2, l2, _) := semit n e1 out false false l1 in
        (c1 ++ slbl_if again ++ [SBlock (SSave out :: c2 ++ [SJmp again] ++ slbl_if out ++ [SRestore out])], l2, false)
    | EPush e1 =>
        let ok := l in
        let '(c, l1, _) := semit n e1 ko pd mk (S l) in
        ([SBlock (SSaveP ok :: c ++ [if ast then SAddRule ptx ok else SCapture ok])], l1, false)
    end
  end.

(** the function emitted for rule [r], whose failure label is [ko] *)
Definition srule_emit (n : nat) (r : nat) (ko : nat) : list scode * nat :=
  let '(c, l1, _) := sipush_emit (semit n) r ko false false (S ko) in
  ((if ast then [SMemoCheck r] else []) ++ (if (ast || used ko)%bool then [SSave ko] else []) ++ c ++
   (if ast then [SMemo r ko true] else []) ++ [SReturn true] ++
   (if used ko then [SLbl ko] ++ (if ast then [SMemo r ko false] else []) ++ [SRestore ko; SReturn false] else []), l1).

End SEmit.

(** * the two passes over the rule list, as in Model/Emit.v *)
Section SPasses.
Variable g : grammar.
Variable ptx : nat.
Variable ast : bool.
Variable inline : bool.
Variable asu : nat -> bool.
Variable undef : nat -> bool.
Variable cr : list bool * list nat.
Variable fl : nat.

Fixpoint spass (real : bool) (used : nat -> bool) (rs : list rbody) (r : nat) (l : nat) : list (option (list scode)) :=
  match rs with
  | [] => []
  | rb :: rs' =>
      let skip := match rb with RNil => if undef r then real else true | _ => false end in
      if skip then None :: spass real used rs' (S r) l
      else
        let ko := l in
        if negb (reached cr r) then None :: spass real used rs' (S r) (S l)
        else if (once inline cr r && negb (ko =? 0))%bool then None :: spass real used rs' (S r) (S l)
        else
          let '(c, l1) := srule_emit g ptx ast (once inline cr) asu used fl r ko in
          Some c :: spass real used rs' (S r) l1
  end.
End SPasses.

(** the rule functions of the generated file, with their statements *)
Definition semit_all (g : grammar) (ptx : nat) (ast inline : bool) (asu undef : nat -> bool) : list (option (list scode)) :=
  let cr := count_rules g in
  let fl := fuel g in
  let dj := dry_jumps_of g ast inline asu undef cr fl in
  spass g ptx ast inline asu undef cr fl true (used_of dj) g 0 0.

(** * the side condition of the soundness theorem (Proofs/SEmitSound.v), decidable
    the emission had fuel for the whole expression, every rule it reaches exists, the emitter compiles a rule in
    place exactly where the machine does ([inlo]: the machine's table, [inl]: the emitter's test) and every rule
    that is called has a function *)
Section Deep.
Variable g : grammar.
Variable inlo inl callable : nat -> bool.

Fixpoint deep (nf : nat) (e : expr) : bool :=
  match nf with
  | O => false
  | S nf =>
    match e with
    | EName r =>
        match nth_error g r with
        | Some (RBody b) => Bool.eqb (inl r) (inlo r) && (if inlo r then deep nf b else callable r)
        | Some (RAct _) => Bool.eqb (inl r) (inlo r) && (if inlo r then true else callable r)
        | _ => false
        end
    | ESeq es => forallb (deep nf) es
    | EAlt es => match es with [] => false | _ => forallb (deep nf) es end
    | ESwitch cs d => forallb (fun kc : list rune * expr => deep nf (snd kc)) cs && deep nf d
    | EAnd e1 | ENot e1 | EQuery e1 | EStar e1 | EPlus e1 | EPush e1 => deep nf e1
    | _ => true
    end
  end.

Definition rdeep (nf : nat) (r : nat) : bool :=
  match nth_error g r with Some (RBody b) => deep nf b | Some (RAct _) => true | _ => false end.
End Deep.

(** for every rule that has a function: the fuel covers its body through the rules compiled into it, every
    name in it stands for a rule that exists and, when called, has a function, no choice is empty, and no rule
    that is reached refers to the first rule when the emitter would compile it in place (it cannot: the first
    rule's count includes the parser's own reference) *)
Definition deep_table_b (g : grammar) (inline : bool) : bool :=
  let cr := count_rules g in
  let it := inline_table inline g in
  forallb (fun r => implb (reached cr r && negb (nth r it false))%bool
                          (match nth_error g r with
                           | Some RNil | None => true
                           | _ => rdeep g (fun r => nth r it false) (once inline cr) (reached cr) (fuel g) r
                           end))
          (seq 0 (length g)).

(** forgetting which statement is which gives the skeleton *)
Fixpoint forget1 (x : scode) : list code :=
  match x with
  | SInc | SCallAsu _ | SState _ | SPredSet _ | SAddAct _ | SLogAct _ | SMemoCheck _ | SReturn _ => [KSt]
  | SCond _ l => [KCJmp l]
  | SLbl n => [KLbl n] | SJmp n => [KJmp n] | SSave n => [KSave n] | SRestore n => [KRestore n] | SSaveP n => [KSaveP n]
  | SAddRule _ n => [KUseP n]
  | SCapture n => [KUseP n; KSt]
  | SMemo _ n _ => [KMemo n]
  | SBrk => [KBrk]
  | SBlock b => [KBlock (flat_map forget1 b)]
  | SSwitch cs d => [KSwitch (map (fun kc : list rune * list scode => flat_map forget1 (snd kc)) cs) (flat_map forget1 d)]
  end.
Definition forget (c : list scode) : list code := flat_map forget1 c.
