(** main.go as a decision function over the abstract outcomes of its steps.
    The facts about which error paths terminate the process are parameters: the check regenerates
    them from main.go's AST on every run (Generated/CliFacts.v). *)
From Coq Require Import List Bool.
Import ListNotations.

Inductive source := SrcFile | SrcStdin.                 (* file argument ; no argument or "-" *)
Inductive outflag := OutUnset | OutNamed | OutDash.     (* -output not given ; -output FILE ; -output - *)
Inductive dest := DestGrammarGo | DestNamed | DestStdout.
Inductive compile_outcome := CompOk | CompWarn | CompTemplateErr | CompInvalidGo.

Record cli_in := mkin {
  ci_strict : bool;
  ci_src : source;
  ci_out : outflag;
  ci_open_in_ok : bool;       (* os.Open of the grammar file succeeds (irrelevant for stdin) *)
  ci_open_out_ok : bool;      (* os.OpenFile of the destination succeeds (irrelevant for stdout) *)
  ci_read_ok : bool;          (* io.ReadAll *)
  ci_parse_ok : bool;         (* the front end accepts the text *)
  ci_compile : compile_outcome;
  ci_write_ok : bool          (* writing the formatted parser to the opened destination succeeds *)
}.

Record cli_out := mkout {
  co_exit_zero : bool;
  co_message : bool;                  (* something was printed to stderr *)
  co_complete : option dest           (* a complete, formatted parser was written there *)
}.

Section Model.
Variable fatal_on_error : bool.
Variable fatal_only_if_strict : bool.

Definition destination (i : cli_in) : dest :=
  match ci_out i, ci_src i with
  | OutNamed, _ => DestNamed
  | OutDash, _ => DestStdout
  | OutUnset, SrcFile => DestGrammarGo
  | OutUnset, SrcStdin => DestStdout
  end.

(** what main does with a non-nil error from parse() *)
Definition on_error (i : cli_in) : cli_out :=
  mkout (negb (fatal_on_error || (fatal_only_if_strict && ci_strict i))) true None.

Definition cli_model (i : cli_in) : cli_out :=
  (* getIO *)
  if (match ci_src i with SrcFile => negb (ci_open_in_ok i) | SrcStdin => false end) then on_error i
  else if (match destination i with DestStdout => false | _ => negb (ci_open_out_ok i) end) then on_error i
  else if negb (ci_read_ok i) then on_error i
  else if negb (ci_parse_ok i) then on_error i
  else match ci_compile i with
       | CompOk => if ci_write_ok i then mkout true false (Some (destination i)) else on_error i
       | CompWarn =>
           (* Strict: Compile returns the warnings as an error before writing; otherwise it prints them and writes *)
           if ci_strict i then on_error i
           else if ci_write_ok i then mkout true true (Some (destination i)) else on_error i
       | CompTemplateErr => on_error i
       | CompInvalidGo => on_error i      (* the unformatted buffer is written, and the error returned *)
       end.

(** failure classes of the property *)
Definition failing (i : cli_in) : bool :=
  (match ci_src i with SrcFile => negb (ci_open_in_ok i) | SrcStdin => false end)
  || (match destination i with DestStdout => false | _ => negb (ci_open_out_ok i) end)
  || negb (ci_read_ok i) || negb (ci_parse_ok i)
  || (match ci_compile i with CompTemplateErr | CompInvalidGo => true | _ => negb (ci_write_ok i) end).

Definition all_inputs : list cli_in :=
  flat_map (fun st => flat_map (fun sr => flat_map (fun ou => flat_map (fun a => flat_map (fun b => flat_map (fun c => flat_map (fun d =>
    flat_map (fun e => map (fun w => mkin st sr ou a b c d e w) [true; false]) [CompOk; CompWarn; CompTemplateErr; CompInvalidGo])
    [true; false]) [true; false]) [true; false]) [true; false]) [OutUnset; OutNamed; OutDash]) [SrcFile; SrcStdin]) [true; false].

Definition dest_eqb (a b : dest) : bool :=
  match a, b with DestGrammarGo, DestGrammarGo | DestNamed, DestNamed | DestStdout, DestStdout => true | _, _ => false end.

(** the property, as a boolean on one input *)
Definition c18_ok (i : cli_in) : bool :=
  let o := cli_model i in
  (* exit 0 only after writing a complete parser to the destination the flags denote *)
  (if co_exit_zero o then match co_complete o with Some d => dest_eqb d (destination i) | None => false end else true)
  (* every failure class: non-zero exit and a message, with or without -strict *)
  && (if failing i then negb (co_exit_zero o) && co_message o else true)
  (* strict + warnings: failure ; no diagnostics: silent success *)
  && (match ci_compile i with
      | CompWarn => if failing i then true else if ci_strict i then negb (co_exit_zero o) else co_exit_zero o
      | CompOk => if failing i then true else co_exit_zero o && negb (co_message o)
      | _ => true
      end).
End Model.
