(** Compile's first passes (tree/peg.go: the TypeRule loop and [link]): from the rule tree the front
    end built - references by name, actions in place - to the linked tree the generator compiles:
    every action becomes a reference to a rule of its own (ActionN, numbered in the order the actions
    are met), every name without definition gets an empty rule, the first capture creates the PegText
    rule; these rules are appended behind the user's in the order they are created.

    A raw grammar is the list of rule bodies in definition order; in it [EName n] with n below the
    number of rules refers to that rule, any larger n is a name without definition, and [EAct k] is an
    action (k is whatever identifies its text). *)
From Coq Require Import List Arith Bool.
From PegV Require Import Spec.Syntax.
Import ListNotations.

Record lstate := mkl {
  l_app : list rbody;              (* rules appended so far *)
  l_undef : list (nat * nat);      (* undefined name -> its rule *)
  l_ptx : option nat;              (* the PegText rule, once a capture was seen *)
  l_acts : list nat                (* action texts, by action number *)
}.

Section Link.
Variable nuser : nat.

Definition next_slot (st : lstate) : nat := nuser + length (l_app st).

Fixpoint lookup_u (l : list (nat * nat)) (n : nat) : option nat :=
  match l with [] => None | (m, i) :: l' => if n =? m then Some i else lookup_u l' n end.

Fixpoint link_e (e : expr) (st : lstate) : expr * lstate :=
  match e with
  | EAct k =>
      let id := length (l_acts st) in
      (EName (next_slot st), mkl (l_app st ++ [RAct id]) (l_undef st) (l_ptx st) (l_acts st ++ [k]))
  | EName n =>
      if n <? nuser then (e, st)
      else match lookup_u (l_undef st) n with
           | Some i => (EName i, st)
           | None => (EName (next_slot st), mkl (l_app st ++ [RNil]) ((n, next_slot st) :: l_undef st) (l_ptx st) (l_acts st))
           end
  | EPush e1 =>
      let st1 := match l_ptx st with
                 | Some _ => st
                 | None => mkl (l_app st ++ [RNil]) (l_undef st) (Some (next_slot st)) (l_acts st)
                 end in
      let '(e1', st2) := link_e e1 st1 in (EPush e1', st2)
  | ESeq es =>
      let '(es', st') := (fix go (l : list expr) (st : lstate) : list expr * lstate :=
                            match l with
                            | [] => ([], st)
                            | x :: l' => let '(x', st1) := link_e x st in let '(l'', st2) := go l' st1 in (x' :: l'', st2)
                            end) es st in (ESeq es', st')
  | EAlt es =>
      let '(es', st') := (fix go (l : list expr) (st : lstate) : list expr * lstate :=
                            match l with
                            | [] => ([], st)
                            | x :: l' => let '(x', st1) := link_e x st in let '(l'', st2) := go l' st1 in (x' :: l'', st2)
                            end) es st in (EAlt es', st')
  | EAnd e1 => let '(e1', st') := link_e e1 st in (EAnd e1', st')
  | ENot e1 => let '(e1', st') := link_e e1 st in (ENot e1', st')
  | EQuery e1 => let '(e1', st') := link_e e1 st in (EQuery e1', st')
  | EStar e1 => let '(e1', st') := link_e e1 st in (EStar e1', st')
  | EPlus e1 => let '(e1', st') := link_e e1 st in (EPlus e1', st')
  | _ => (e, st)
  end.

Fixpoint link_rules (bodies : list expr) (st : lstate) : list expr * lstate :=
  match bodies with
  | [] => ([], st)
  | b :: bs => let '(b', st1) := link_e b st in let '(bs', st2) := link_rules bs st1 in (b' :: bs', st2)
  end.
End Link.

Definition link (bodies : list expr) : grammar * option nat * list nat :=
  let '(bs, st) := link_rules (length bodies) bodies (mkl [] [] None []) in
  (map RBody bs ++ l_app st, l_ptx st, l_acts st).
