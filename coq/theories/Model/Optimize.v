(** -switch: the first-set analysis and the rewrite of ordered choices (optimizeAlternates in
    tree/peg.go, after the "fix:" commits).  Sets are the interval lists of Model/SetImpl.v, i.e. the
    very package the generator uses. *)
From Coq Require Import List ZArith Bool Arith.
From PegV Require Import Spec.Syntax Model.SetImpl Model.Analyses.
Import ListNotations.
Open Scope Z_scope.

Definition fsres := (bool * iset)%type.     (* must consume ; first characters *)
Definition maxRune : Z := 1114111.

Section FS.
Variable T : list fsres.                     (* per rule *)
Definition tget (r : nat) : fsres := nth r T (false, []).

Fixpoint fs (e : expr) : fsres :=
  match e with
  | EDot => (true, [(0, maxRune)])
  | EChar c => (true, [(c, c)])
  | ERange lo hi => (true, add_range [] lo hi)
  | EName r => tget r
  | ESeq es =>
      (* sets of the elements up to and including the first that must consume *)
      (fix go (l : list expr) : fsres :=
         match l with
         | [] => (false, [])
         | x :: l' => let r := fs x in
                      if fst r then (true, snd r)
                      else let r' := go l' in (fst r', union (snd r') (snd r))
         end) es
  | EAlt es =>
      fold_left (fun acc x => let r := fs x in (fst acc && fst r, union (snd acc) (snd r))) es (true, [])
  | EAnd _ | ENot _ => (false, [])
  | EQuery e1 | EStar e1 => (false, snd (fs e1))
  | EPlus e1 | EPush e1 => fs e1
  | _ => (false, [])
  end.
End FS.

Definition fs_step (g : grammar) (T : list fsres) : list fsres :=
  map (fun rb => match rb with RBody b => fs T b | _ => (false, []) end) g.

Definition fsres_eqb (a b : fsres) : bool := Bool.eqb (fst a) (fst b) && equal (snd a) (snd b).
Definition table_eqb (a b : list fsres) : bool :=
  (length a =? length b)%nat && forallb (fun p => fsres_eqb (fst p) (snd p)) (combine a b).

(** iterate to a fixed point (the Go code repeats its pass until nothing changes, with a cap) *)
Fixpoint fs_iter (n : nat) (g : grammar) (T : list fsres) : list fsres * bool :=
  match n with
  | O => (T, false)
  | S n => let T' := fs_step g T in if table_eqb T T' then (T, true) else fs_iter n g T'
  end.
Definition fs_table (g : grammar) : list fsres * bool :=
  fs_iter (length g + 4) g (map (fun _ => (false, [])) g).

(** characters a case label can carry: code points that []rune(string) can produce *)
Definition valid_rune (d : Z) : bool := (0 <=? d) && (d <=? maxRune) && negb ((55296 <=? d) && (d <=? 57343)).
Definition keys_of (s : iset) : list Z := filter valid_rune (elements s).

Section Opt.
Variable T : list fsres.

(** which alternatives intersect a later one *)
Fixpoint inter_flags (l : list iset) : list bool :=
  match l with
  | [] => []
  | s :: l' => (match l' with [] => false | _ => existsb (fun s' => intersects s s') l' end) :: inter_flags l'
  end.

(** the unordered list as the generator builds it: larger sets are appended, others prepended *)
Fixpoint place_cases (l : list (iset * expr)) (maxv : Z) (acc : list (iset * expr)) : list (iset * expr) :=
  match l with
  | [] => acc
  | (s, e) :: l' =>
      let ln := len s in
      if maxv <? ln then place_cases l' ln (acc ++ [(s, e)])
      else place_cases l' maxv ((s, e) :: acc)
  end.

Definition too_big (s : iset) : bool := 4096 <? len s.

Fixpoint opt (e : expr) : expr :=
  match e with
  | ESeq es => ESeq (map opt es)
  | EAlt es =>
      let rs := map (fs T) es in
      let es' := map opt es in
      if negb (forallb fst rs) then EAlt es'
      else
        let fl := inter_flags (map snd rs) in
        let nint := length (filter (fun b => b) fl) in
        if Nat.leb (length es) (2 + nint) then EAlt es'
        else
          let items := combine fl (combine (map snd rs) es') in
          let ordered := map (fun x => snd (snd x)) (filter (fun x => fst x) items) in
          let unord := map snd (filter (fun x => negb (fst x)) items) in
          match rev (place_cases unord 0 []) with
          | [] => EAlt es'
          | (_, d) :: before =>
              if existsb (fun x => too_big (fst x)) before then EAlt es'   (* not modelled: huge case lists *)
              else
                let sw := ESwitch (map (fun x => (keys_of (fst x), snd x)) (rev before)) d in
                match ordered with [] => sw | _ => EAlt (ordered ++ [sw]) end
          end
  | EAnd e1 => EAnd (opt e1)
  | ENot e1 => ENot (opt e1)
  | EQuery e1 => EQuery (opt e1)
  | EStar e1 => EStar (opt e1)
  | EPlus e1 => EPlus (opt e1)
  | EPush e1 => EPush (opt e1)
  | _ => e
  end.
End Opt.

(** the whole -switch pass: analysis to a fixed point, then rewrite of the rules reachable from the first *)
Definition optimize (g : grammar) : grammar :=
  let '(T, stable) := fs_table g in
  if negb stable then g
  else
    let reached := fst (count_rules g) in
    map (fun p => match snd p with
                  | RBody b => if nth (fst p) reached false then RBody (opt T b) else RBody b
                  | rb => rb
                  end) (combine (seq 0 (length g)) g).

(** * executable side conditions of the soundness theorems (Proofs/FirstSound.v, Proofs/OptSound.v) *)

(** characters and ranges in the grammar are code points in order *)
Fixpoint ranges_ok (e : expr) : bool :=
  match e with
  | EChar c => 0 <=? c
  | ERange lo hi => (0 <=? lo) && (lo <=? hi)
  | ESeq es | EAlt es => forallb ranges_ok es
  | EAnd e1 | ENot e1 | EQuery e1 | EStar e1 | EPlus e1 | EPush e1 => ranges_ok e1
  | ESwitch _ _ => false          (* the analysis runs on trees without switch nodes *)
  | _ => true
  end.

(** the representation invariant of the set package, as a test *)
Fixpoint inv_b (lo : Z) (l : iset) : bool :=
  match l with
  | [] => true
  | (b, e) :: l' => (lo <=? b) && (b <=? e) && inv_b (e + 2) l'
  end.

(** subset test through the package's own operations *)
Definition subset_b (s t : iset) : bool := equal (union t s) t.

(** the table T is consistent with rule r: a post-fixed point of the analysis, no least-ness needed *)
Definition rule_t_ok (T : list fsres) (r : nat) (rb : rbody) : bool :=
  match rb with
  | RBody b => ranges_ok b && implb (fst (tget T r)) (fst (fs T b)) && subset_b (snd (fs T b)) (snd (tget T r))
  | RAct _ => negb (fst (tget T r))
  | RNil => true
  end.

Definition t_ok_b (g : grammar) (T : list fsres) : bool :=
  forallb (fun s => inv_b 0 (snd s)) T &&
  forallb (fun p => rule_t_ok T (fst p) (snd p)) (combine (seq 0 (length g)) g).

(** side condition on the analysis result, evaluated per grammar: the iteration reached a fixed point
    and the table is consistent with the grammar *)
Definition opt_ok_b (g : grammar) : bool := let '(T, stable) := fs_table g in stable && t_ok_b g T.

(** what []rune(string) yields *)
Definition valid_buf_b (buf : list Z) : bool := forallb valid_rune buf.
