(** When may the generated code drop a first-character test (-switch)?  A case body compiled with
    the skip flag set must begin - through first elements of sequences, captures and inlined rules -
    with a terminal whose own test is implied by every key of the case. *)
From Coq Require Import List ZArith Bool Arith.
From PegV Require Import Spec.Syntax Spec.Peg Model.Machine.
Import ListNotations.

Section Skip.
Variable g : grammar.
Variable inl : nat -> bool.           (* rule inlined at its call site *)

(** the chain from an expression compiled with ParentDetect = true down to the terminal that skips
    its test; [mk] = ParentMultipleKey; [c] = the character the case guard has established *)
Inductive chain : expr -> bool -> rune -> Prop :=
| ch_char_mk k c : chain (EChar k) true c                       (* several keys: the test is kept *)
| ch_char k : chain (EChar k) false k                           (* single key = the literal itself *)
| ch_range lo hi mk c : in_range lo hi c = true -> chain (ERange lo hi) mk c
| ch_seq e1 es mk c : chain e1 mk c -> chain (ESeq (e1 :: es)) mk c
| ch_seq_nil mk c : chain (ESeq []) mk c
| ch_push e1 mk c : chain e1 mk c -> chain (EPush e1) mk c
| ch_inline r b mk c : inl r = true -> nth_error g r = Some (RBody b) -> chain b mk c -> chain (EName r) mk c
| ch_inline_other r mk c : inl r = true -> (forall b, nth_error g r <> Some (RBody b)) -> chain (EName r) mk c
| ch_call r mk c : inl r = false -> chain (EName r) mk c
| ch_pred k mk c : chain (EPred k) mk c
| ch_state k mk c : chain (EState k) mk c
| ch_act k mk c : chain (EAct k) mk c
| ch_nil mk c : chain ENil mk c
| ch_alt es mk c : chain (EAlt es) mk c                          (* flags are not handed down *)
| ch_and e1 mk c : chain (EAnd e1) mk c
| ch_not e1 mk c : chain (ENot e1) mk c
| ch_query e1 mk c : chain (EQuery e1) mk c
| ch_star e1 mk c : chain (EStar e1) mk c
| ch_plus e1 mk c : chain (EPlus e1) mk c
| ch_switch cs d mk c : chain (ESwitch cs d) mk c.

Fixpoint chain_b (n : nat) (e : expr) (mk : bool) (c : rune) {struct n} : bool :=
  match n with
  | O => false
  | S n =>
    match e with
    | EDot => false
    | EChar k => mk || Z.eqb k c
    | ERange lo hi => in_range lo hi c
    | ESeq (e1 :: _) => chain_b n e1 mk c
    | EPush e1 => chain_b n e1 mk c
    | EName r => if inl r then match nth_error g r with Some (RBody b) => chain_b n b mk c | _ => true end else true
    | _ => true
    end
  end.

Lemma chain_b_sound n : forall e mk c, chain_b n e mk c = true -> chain e mk c.
Proof.
  induction n as [|n IH]; intros e mk c H; [discriminate|].
  destruct e; cbn [chain_b] in H; try discriminate; try (constructor; fail).
  - apply orb_true_iff in H as [->|H]; [constructor|]. apply Z.eqb_eq in H. subst. destruct mk; constructor.
  - constructor. exact H.
  - destruct (inl r) eqn:Ei; [|apply ch_call; exact Ei].
    destruct (nth_error g r) as [[b|k|]|] eqn:Eg.
    + eapply ch_inline; eauto.
    + apply ch_inline_other; auto. intros b Hb; congruence.
    + apply ch_inline_other; auto. intros b Hb; congruence.
    + apply ch_inline_other; auto. intros b Hb; congruence.
  - destruct es as [|e1 es]; [constructor|]. constructor. apply IH. exact H.
  - constructor. apply IH. exact H.
Qed.

(** every switch in the expression is well guarded *)
Fixpoint swok (e : expr) : Prop :=
  match e with
  | ESeq es | EAlt es => (fix all (l : list expr) : Prop := match l with [] => True | x :: l' => swok x /\ all l' end) es
  | EAnd e1 | ENot e1 | EQuery e1 | EStar e1 | EPlus e1 | EPush e1 => swok e1
  | ESwitch cs d =>
      swok d /\
      (fix allc (l : list (list rune * expr)) : Prop :=
         match l with
         | [] => True
         | (keys, b) :: l' => (swok b /\ forall c, In c keys -> chain b (Nat.ltb 1 (length keys)) c) /\ allc l'
         end) cs
  | _ => True
  end.

Fixpoint swok_b (n : nat) (e : expr) : bool :=
  match e with
  | ESeq es | EAlt es => forallb (swok_b n) es
  | EAnd e1 | ENot e1 | EQuery e1 | EStar e1 | EPlus e1 | EPush e1 => swok_b n e1
  | ESwitch cs d =>
      swok_b n d &&
      forallb (fun kb => swok_b n (snd kb) && forallb (fun c => chain_b n (snd kb) (Nat.ltb 1 (length (fst kb))) c) (fst kb)) cs
  | _ => true
  end.

Lemma swok_b_sound n e : swok_b n e = true -> swok e.
Proof.
  induction e using expr_ind2; cbn [swok_b swok]; intros Hb; auto.
  - induction H as [|x es Hx Hes IHes]; cbn [forallb] in Hb; [exact I|]. apply andb_true_iff in Hb as [H1 H2].
    split; [apply Hx; exact H1|apply IHes; exact H2].
  - induction H as [|x es Hx Hes IHes]; cbn [forallb] in Hb; [exact I|]. apply andb_true_iff in Hb as [H1 H2].
    split; [apply Hx; exact H1|apply IHes; exact H2].
  - apply andb_true_iff in Hb as [Hd Hc]. split; [auto|].
    induction H as [|[keys b] cs Hx Hcs IHcs]; cbn [forallb] in Hc; [exact I|].
    apply andb_true_iff in Hc as [H1 H2]. cbn [fst snd] in *. apply andb_true_iff in H1 as [Hb' Hk].
    split; [|apply IHcs; exact H2]. split; [apply Hx; exact Hb'|]. intros c Hin. rewrite forallb_forall in Hk. apply (chain_b_sound n). apply Hk. exact Hin.
Qed.

Definition grammar_swok : Prop := forall r b, nth_error g r = Some (RBody b) -> swok b.
Definition grammar_swok_b (n : nat) : bool :=
  forallb (fun rb => match rb with RBody b => swok_b n b | _ => true end) g.

Lemma grammar_swok_b_sound n : grammar_swok_b n = true -> grammar_swok.
Proof.
  intros H r b Hr. unfold grammar_swok_b in H. rewrite forallb_forall in H.
  specialize (H _ (nth_error_In _ _ Hr)). cbn in H. eapply swok_b_sound; eauto.
Qed.

End Skip.
