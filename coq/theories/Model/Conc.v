(** Interleaving semantics for C09 (the two analysis goroutines inside Compile) and C14 (independent
    parser instances): sequentially consistent interleavings of atomic steps. *)
From Coq Require Import List Arith Bool.
Import ListNotations.

(** * Actions over a store of named cells, with declared footprints *)
Section Store.
Variable V : Type.
Definition store := nat -> V.
Definition seq_eq (s s' : store) : Prop := forall k, s k = s' k.

Record action := mkact {
  a_reads : list nat;
  a_writes : list nat;
  a_fun : store -> store
}.

(** the action only changes cells it declares as written, and what it writes depends only on the
    cells it declares (read or written) *)
Definition respects (a : action) : Prop :=
  (forall s k, ~ In k (a_writes a) -> a_fun a s k = s k) /\
  (forall s s', (forall k, In k (a_reads a ++ a_writes a) -> s k = s' k) ->
                forall k, In k (a_writes a) -> a_fun a s k = a_fun a s' k).

Definition disjoint (l1 l2 : list nat) : Prop := forall k, In k l1 -> ~ In k l2.
Definition no_conflict (a b : action) : Prop :=
  disjoint (a_writes a) (a_reads b ++ a_writes b) /\ disjoint (a_writes b) (a_reads a ++ a_writes a).

Fixpoint run (l : list action) (s : store) : store :=
  match l with [] => s | a :: l' => run l' (a_fun a s) end.

Inductive interleaving : list action -> list action -> list action -> Prop :=
| il_nil : interleaving [] [] []
| il_left a p1 p2 l : interleaving p1 p2 l -> interleaving (a :: p1) p2 (a :: l)
| il_right b p1 p2 l : interleaving p1 p2 l -> interleaving p1 (b :: p2) (b :: l).
End Store.

(** * A family of instances, each with its own state *)
Section Product.
Variable S O Op : Type.
Variable step : S -> Op -> S * O.

Definition gstate := nat -> S.
Definition upd (gs : gstate) (i : nat) (s : S) : gstate := fun j => if Nat.eqb j i then s else gs j.

(** run a schedule; collect the outputs tagged with the instance *)
Fixpoint grun (gs : gstate) (sched : list (nat * Op)) : gstate * list (nat * O) :=
  match sched with
  | [] => (gs, [])
  | (i, op) :: rest =>
      let '(s', o) := step (gs i) op in
      let '(gs', outs) := grun (upd gs i s') rest in
      (gs', (i, o) :: outs)
  end.

(** run one instance alone on its own operations *)
Fixpoint lrun (s : S) (ops : list Op) : S * list O :=
  match ops with
  | [] => (s, [])
  | op :: rest => let '(s', o) := step s op in let '(s'', outs) := lrun s' rest in (s'', o :: outs)
  end.

Definition proj_ops (i : nat) (sched : list (nat * Op)) : list Op :=
  map snd (filter (fun x => Nat.eqb (fst x) i) sched).
Definition proj_outs (i : nat) (outs : list (nat * O)) : list O :=
  map snd (filter (fun x => Nat.eqb (fst x) i) outs).
End Product.
