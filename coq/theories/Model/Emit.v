(** The skeleton of the code that [compile] (tree/peg.go) emits for a rule: blocks, labels, gotos,
    the position/tokenIndex variables it declares and uses, switch clauses and breaks.  Everything
    else is an opaque statement.  This is what decides whether the Go compiler accepts the file as
    far as labels and variables go: every goto has its label in scope, every label is used, every
    declared variable is used, no label stands directly before a case clause.

    The label numbering is global over the file, exactly as in the generator: one counter, one label
    per rule function (its failure exit), further labels per operator.  The generator runs the whole
    emission twice: a dry pass that records which labels are jumped to ([used]), then the real pass,
    which prints a label only if the dry pass saw a jump to it. *)
From Coq Require Import List Arith Bool.
From PegV Require Import Spec.Syntax Model.Analyses.
Import ListNotations.

Inductive code :=
| KSt                                  (* any other statement *)
| KLbl (n : nat)                       (* lN: *)
| KJmp (n : nat)                       (* goto lN *)
| KCJmp (n : nat)                      (* if cond { goto lN } *)
| KSave (n : nat)                      (* positionN, tokenIndexN := position, tokenIndex *)
| KRestore (n : nat)                   (* position, tokenIndex = positionN, tokenIndexN *)
| KSaveP (n : nat)                     (* positionN := position *)
| KUseP (n : nat)                      (* add(rule, positionN) / begin := positionN *)
| KMemo (n : nat)                      (* memoize(rule, positionN, tokenIndexN, matched) *)
| KBrk                                 (* break *)
| KBlock (b : list code)               (* { ... } *)
| KSwitch (cases : list (list code)) (dflt : list code).

Section Emit.
Variable g : grammar.
Variable ast : bool.
Variable inl : nat -> bool.            (* compiled at its single call site *)
Variable asu : nat -> bool.            (* call emitted without a failure branch *)
Variable used : nat -> bool.           (* labels the dry pass saw a jump to *)

Definition lbl_if (n : nat) : list code := if used n then [KLbl n] else [].

Definition res := (list code * nat * bool)%type.      (* code, next free label, "a label was printed last" *)

(** sequence: only the first element inherits the skip-check flags; the result flag is that of the last
    element that printed anything *)
Fixpoint seq_emit (emit : expr -> nat -> bool -> bool -> nat -> res) (es : list expr) (ko : nat) (pd mk : bool) (l : nat) (ll : bool) : res :=
  match es with
  | [] => ([], l, ll)
  | x :: es' =>
      let '(c, l1, ll1) := emit x ko pd mk l in
      (* an element that prints nothing leaves a preceding label last (tree/peg.go, fix f5d6c40) *)
      let '(c', l2, ll2) := seq_emit emit es' ko false false l1 (match c with [] => ll | _ => ll1 end) in
      (c ++ c', l2, ll2)
  end.

(** ordered choice, inside the block that saved position [ok]: every alternative but the last fails
    to its own label, where the position is restored; the last one fails to the outer label *)
Fixpoint alt_emit (emit : expr -> nat -> bool -> bool -> nat -> res) (es : list expr) (ko ok : nat) (l : nat) : list code * nat :=
  match es with
  | [] => ([], l)
  | [x] => let '(c, l1, _) := emit x ko false false l in (c, l1)
  | x :: es' =>
      let next := l in
      let '(c, l1, _) := emit x next false false (S l) in
      let '(c', l2) := alt_emit emit es' ko ok l1 in
      (c ++ [KJmp ok] ++ lbl_if next ++ [KRestore ok] ++ c', l2)
  end.

Fixpoint cases_emit (emit : expr -> nat -> bool -> bool -> nat -> res) (cs : list (list rune * expr)) (ko : nat) (l : nat) : list (list code) * nat :=
  match cs with
  | [] => ([], l)
  | (keys, b) :: cs' =>
      let '(c, l1, ll) := emit b ko true (Nat.ltb 1 (length keys)) l in
      let '(rest, l2) := cases_emit emit cs' ko l1 in
      ((c ++ if ll then [KBrk] else []) :: rest, l2)
  end.

(** ImplicitPush[body, rule]: a rule's code, inlined at a call site or at the top of its function *)
Definition ipush_emit (emit : expr -> nat -> bool -> bool -> nat -> res) (r : nat) (ko : nat) (pd mk : bool) (l : nat) : res :=
  match nth_error g r with
  | Some (RBody b) =>
      let '(c, l1, _) := emit b ko pd mk (S l) in
      ([KBlock (KSaveP l :: c ++ [KUseP l])], l1, false)
  | Some (RAct _) => ([KBlock [KSt]], S l, false)
  | _ => ([KBlock [KSaveP l; KUseP l]], S l, false)                   (* body <undefined> *)
  end.

Fixpoint emit (n : nat) (e : expr) (ko : nat) (pd mk : bool) (l : nat) {struct n} : res :=
  match n with
  | O => ([], l, false)
  | S n =>
    match e with
    | EDot => if pd then ([], l, false) else ([KCJmp ko], l, false)
    | EChar _ => if (pd && negb mk)%bool then ([KSt], l, false) else ([KCJmp ko; KSt], l, false)
    | ERange _ _ => if pd then ([KSt], l, false) else ([KCJmp ko; KSt], l, false)
    | EName r =>
        if inl r then let '(c, l1, _) := ipush_emit (emit n) r ko pd mk l in (c, l1, false)
        else if asu r then ([KSt], l, false) else ([KCJmp ko], l, false)
    | EPred _ => ([KBlock [KSt; KCJmp ko]], l, false)      (* { predicate := ...; if !predicate { goto ko } } *)
    | EState _ => ([KSt], l, false)
    | EAct _ | ENil => ([], l, false)
    | ESeq es => seq_emit (emit n) es ko pd mk l false
    | EAlt es =>
        let ok := l in
        let '(c, l1) := alt_emit (emit n) es ko ok (S l) in
        ([KBlock (KSave ok :: c)] ++ lbl_if ok, l1, used ok)
    | ESwitch cs d =>
        let ok := l in
        let '(clauses, l1) := cases_emit (emit n) cs ko (S l) in
        let '(cd, l2, lld) := emit n d ko false false l1 in
        ([KBlock [KSwitch clauses (cd ++ if lld then [KBrk] else [])]] ++ lbl_if ok, l2, used ok)
    | EAnd e1 =>
        let ok := l in
        let '(c, l1, _) := emit n e1 ko false false (S l) in
        ([KBlock (KSave ok :: c ++ [KRestore ok])], l1, false)
    | ENot e1 =>
        let ok := l in
        let '(c, l1, _) := emit n e1 ok false false (S l) in
        ([KBlock (KSave ok :: c ++ [KJmp ko] ++ lbl_if ok ++ [KRestore ok])], l1, false)
    | EQuery e1 =>
        let qko := l in let qok := S l in
        let '(c, l1, _) := emit n e1 qko false false (S (S l)) in
        ([KBlock (KSave qko :: c ++ [KJmp qok] ++ lbl_if qko ++ [KRestore qko])] ++ lbl_if qok, l1, used qok)
    | EStar e1 =>
        let again := l in let out := S l in
        let '(c, l1, _) := emit n e1 out false false (S (S l)) in
        (lbl_if again ++ [KBlock (KSave out :: c ++ [KJmp again] ++ lbl_if out ++ [KRestore out])], l1, false)
    | EPlus e1 =>
        let again := l in let out := S l in
        let '(c1, l1, _) := emit n e1 ko false false (S (S l)) in
        let '(c2, l2, _) := emit n e1 out false false l1 in
        (c1 ++ lbl_if again ++ [KBlock (KSave out :: c2 ++ [KJmp again] ++ lbl_if out ++ [KRestore out])], l2, false)
    | EPush e1 =>
        let ok := l in
        let '(c, l1, _) := emit n e1 ko pd mk (S l) in
        ([KBlock (KSaveP ok :: c ++ (if ast then [KUseP ok] else [KUseP ok; KSt]))], l1, false)
    end
  end.

(** the function emitted for rule [r], whose failure label is [ko] *)
Definition rule_emit (n : nat) (r : nat) (ko : nat) : list code * nat :=
  let '(c, l1, _) := ipush_emit (emit n) r ko false false (S ko) in
  ((if ast then [KSt] else []) ++ (if (ast || used ko)%bool then [KSave ko] else []) ++ c ++
   (if ast then [KMemo ko] else []) ++ [KSt] ++
   (if used ko then [KLbl ko] ++ (if ast then [KMemo ko] else []) ++ [KRestore ko; KSt] else []), l1).

End Emit.

(** * the two passes over the rule list *)
Section Passes.
Variable g : grammar.
Variable ast : bool.
Variable inline : bool.
Variable asu : nat -> bool.
Variable undef : nat -> bool.          (* slot created for a name that has no definition *)

Definition fuel : nat := S (gsize g) * S (length g).

(** all rule functions, in order; [real = false] is the dry pass, which also walks the slots of
    undefined names (they take labels there and none in the real pass).  [cr] is the result of
    count_rules (reached, counts) and [fl] the fuel, both computed once by the caller. *)
Section Pass.
Variable cr : list bool * list nat.
Variable fl : nat.
Definition reached (r : nat) : bool := nth r (fst cr) false.
Definition once (r : nat) : bool := inline && (nth r (snd cr) 0 =? 1).

Fixpoint pass (real : bool) (used : nat -> bool) (rs : list rbody) (r : nat) (l : nat) : list (option (list code)) :=
  match rs with
  | [] => []
  | rb :: rs' =>
      let skip := match rb with RNil => if undef r then real else true | _ => false end in
      if skip then None :: pass real used rs' (S r) l
      else
        let ko := l in
        if negb (reached r) then None :: pass real used rs' (S r) (S l)
        else if (once r && negb (ko =? 0))%bool then None :: pass real used rs' (S r) (S l)
        else
          let '(c, l1) := rule_emit g ast once asu used fl r ko in
          Some c :: pass real used rs' (S r) l1
  end.
End Pass.

Fixpoint jumps1 (x : code) : list nat :=
  match x with
  | KJmp n | KCJmp n => [n]
  | KBlock b => flat_map jumps1 b
  | KSwitch cs d => flat_map (flat_map jumps1) cs ++ flat_map jumps1 d
  | _ => []
  end.
Definition jumps (c : list code) : list nat := flat_map jumps1 c.

Definition dry_jumps_of (cr : list bool * list nat) (fl : nat) : list nat :=
  flat_map (fun o => match o with Some c => jumps c | None => [] end) (pass cr fl false (fun _ => false) g 0 0).
Definition used_of (dj : list nat) (n : nat) : bool := existsb (Nat.eqb n) dj.

(** (the tables are computed once) *)
Definition emit_all : list (option (list code)) :=
  let cr := count_rules g in
  let fl := fuel in
  let dj := dry_jumps_of cr fl in
  pass cr fl true (used_of dj) g 0 0.

End Passes.

(** flat form, as read back from the generated file; runs of plain statements are one [KSt] *)
Inductive tok := TSt | TLbl (n : nat) | TJmp (n : nat) | TCJmp (n : nat) | TSave (n : nat) | TRestore (n : nat)
  | TSaveP (n : nat) | TUseP (n : nat) | TMemo (n : nat) | TBrk | TOpen | TClose | TSw | TCase | TDflt | TEndSw.

Fixpoint flat1 (x : code) : list tok :=
  match x with
  | KSt => [TSt] | KLbl n => [TLbl n] | KJmp n => [TJmp n] | KCJmp n => [TCJmp n]
  | KSave n => [TSave n] | KRestore n => [TRestore n] | KSaveP n => [TSaveP n] | KUseP n => [TUseP n] | KMemo n => [TMemo n]
  | KBrk => [TBrk]
  | KBlock b => TOpen :: flat_map flat1 b ++ [TClose]
  | KSwitch cs d => TSw :: flat_map (fun k => TCase :: flat_map flat1 k) cs ++ TDflt :: flat_map flat1 d ++ [TEndSw]
  end.
Definition flat (c : list code) : list tok := flat_map flat1 c.

Fixpoint squash (l : list tok) : list tok :=
  match l with
  | TSt :: ((TSt :: _) as l') => squash l'
  | x :: l' => x :: squash l'
  | [] => []
  end.
