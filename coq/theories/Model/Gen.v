(** Generator decisions packaged for a run (which calls are inlined / emitted without a failure
    branch), the fixed predicate language used by the harness, and the observation record of one
    history step Buffer := input; Reset(); Parse(entry); Execute(); AST(); Error(). *)
From Coq Require Import List ZArith Bool Arith.
From PegV Require Import Spec.Syntax Spec.Peg Model.Machine Model.Runtime Model.Analyses.
Import ListNotations.

Definition mk_opts (ast memo inline : bool) (g : grammar) : opts :=
  let it := inline_table inline g in
  let at_ := map (fun r => asu_rule g r) (seq 0 (length g)) in
  mkopts ast memo (fun r => nth r it false) (fun r => nth r at_ false).

(** the four predicates the harness writes into grammars:
    0: true   1: false   2: position%2 == 0   3: buffer[position] != 'b' *)
Definition std_penv (buf : list rune) (k p : nat) : bool :=
  match k with
  | 0 => true
  | 1 => false
  | 2 => Nat.even p
  | _ => match nth_error (buf ++ [endSymbol]) p with
         | Some c => negb (Z.eqb c 98%Z)
         | None => true
         end
  end.

Record obs := mkobs {
  ob_status : nat;                       (* 0 matched, 1 parse error, 2 crash, 3 out of fuel *)
  ob_pos : nat;
  ob_tokens : list tok;                  (* Tokens() after a match *)
  ob_maxtok : tok;                       (* the error's token after a failed parse *)
  ob_trace : list (nat * (nat * nat));   (* Execute(): actions with the capture they saw *)
  ob_tree : list (nat * tok);            (* SprintSyntaxTree(): (depth, token) per line *)
  ob_err : option (nat * (nat * nat) * (nat * nat) * list rune);
  ob_alog : list (nat * (nat * nat));    (* -noast: inline action log *)
  ob_memo : nat                          (* entries in the memo table afterwards *)
}.

Definition observe (g : grammar) (ptx : nat) (o : opts) (buf : list rune) (ok : bool) (st : mstate) : obs :=
  let tokens := if ok then live st else [] in
  mkobs (if ok then 0 else 1) (pos st) tokens (maxtok st)
        (if o_ast o then execute g ptx tokens (0, 0) else [])
        (if o_ast o then print_tree tokens else [])
        (if ok then None else error_fields (buf ++ [endSymbol]) (maxtok st))
        (alog st) (length (memo st)).

Definition bad_obs (code : nat) : obs := mkobs code 0 [] zero_tok [] [] None [] 0.

Fixpoint run_history (g : grammar) (ptx : nat) (o : opts) (fuel : nat) (entry_rule : nat)
                     (st : mstate) (inputs : list (list rune)) : list obs :=
  match inputs with
  | [] => []
  | buf :: rest =>
      match parse_from g ptx std_penv o fuel st buf entry_rule with
      | PCrash => bad_obs 2 :: run_history g ptx o fuel entry_rule zero_state rest
      | PTimeout => bad_obs 3 :: run_history g ptx o fuel entry_rule zero_state rest
      | PDone ok st' => observe g ptx o buf ok st' :: run_history g ptx o fuel entry_rule st' rest
      end
  end.

(** the reference semantics on the same grammar, for the harness *)
Definition spec_parse (g : grammar) (ptx : nat) (fuel : nat) (entry_rule : nat) (buf : list rune) : option out :=
  peg_parse g ptx buf (std_penv buf) fuel entry_rule.
