(** Specifications on the derivation forest: the action trace (C04), the pruned tree (C05). *)
From Coq Require Import List ZArith Bool Arith.
From PegV Require Import Spec.Syntax.
Import ListNotations.

(** induction principle for derivation trees (nested lists) *)
Section DtInd.
Variable P : dt -> Prop.
Variable Q : list dt -> Prop.
Hypothesis Hnode : forall r b e kids, Q kids -> P (Node r b e kids).
Hypothesis Hnil : Q [].
Hypothesis Hcons : forall t f, P t -> Q f -> Q (t :: f).
Fixpoint dt_ind2 (t : dt) : P t :=
  match t with
  | Node r b e kids =>
      Hnode r b e kids ((fix go (l : list dt) : Q l := match l with [] => Hnil | k :: l' => Hcons k l' (dt_ind2 k) (go l') end) kids)
  end.
Fixpoint forest_ind2 (f : list dt) : Q f :=
  match f with [] => Hnil | k :: l' => Hcons k l' (dt_ind2 k) (forest_ind2 l') end.
End DtInd.

(** * C04: walk the derivation left to right; a completed capture (PegText node) becomes the current
    text; an action node emits (action number, current text). *)
Section Trace.
Variable g : grammar.
Variable ptx : nat.

Fixpoint trace_dt (t : dt) (txt : nat * nat) : list (nat * (nat * nat)) * (nat * nat) :=
  match t with
  | Node r b e kids =>
      let '(evs, txt1) :=
        (fix go (l : list dt) (txt : nat * nat) : list (nat * (nat * nat)) * (nat * nat) :=
           match l with
           | [] => ([], txt)
           | k :: l' => let '(e1, t1) := trace_dt k txt in let '(e2, t2) := go l' t1 in (e1 ++ e2, t2)
           end) kids txt in
      if r =? ptx then (evs, (b, e))
      else match nth_error g r with
           | Some (RAct k) => (evs ++ [(k, txt1)], txt1)
           | _ => (evs, txt1)
           end
  end.

Fixpoint trace_forest (f : list dt) (txt : nat * nat) : list (nat * (nat * nat)) * (nat * nat) :=
  match f with
  | [] => ([], txt)
  | k :: l' => let '(e1, t1) := trace_dt k txt in let '(e2, t2) := trace_forest l' t1 in (e1 ++ e2, t2)
  end.
End Trace.

(** * C05: the syntax tree = derivation forest without its empty nodes *)
Inductive rose := Rose (t : tok) (kids : list rose).

Fixpoint prune_dt (t : dt) : list rose :=
  match t with
  | Node r b e kids =>
      if b =? e then []
      else [Rose (r, (b, e)) ((fix go (l : list dt) : list rose := match l with [] => [] | k :: l' => prune_dt k ++ go l' end) kids)]
  end.
Definition prune_forest (f : list dt) : list rose := flat_map prune_dt f.

(** pre-order listing with depth: what the printer shows *)
Fixpoint preorder (depth : nat) (t : rose) : list (nat * tok) :=
  match t with
  | Rose tk kids =>
      (depth, tk) :: (fix pl (l : list rose) : list (nat * tok) :=
                        match l with [] => [] | k :: l' => preorder (S depth) k ++ pl l' end) kids
  end.
