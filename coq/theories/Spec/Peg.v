(** Reference semantics: Ford's PEG semantics on the rune list (no sentinel), returning the
    derivation forest of a success and, in time order, every token completed during the attempt
    (including those inside branches later abandoned and inside lookahead): the "events".
    Fuel-indexed; [None] = no result within the fuel (never a normal-looking value). *)
From Coq Require Import List ZArith Bool Arith.
From PegV Require Import Spec.Syntax.
Import ListNotations.

Inductive res := Fail | Succ (p : nat) (f : list dt).
Definition out := (res * list tok)%type.

Definition in_range (lo hi c : rune) : bool := (Z.leb lo c && Z.leb c hi)%bool.

Section Sem.
Variable g : grammar.
Variable ptx : nat.                       (* index of the PegText rule (captures) *)
Variable buf : list rune.                 (* the input, as runes *)
Variable penv : nat -> nat -> bool.       (* predicate k at position p (pure) *)

Definition term (ok : rune -> bool) (p : nat) : out :=
  match nth_error buf p with
  | Some c => if ok c then (Succ (S p) [], []) else (Fail, [])
  | None => (Fail, [])
  end.

Fixpoint seq_ev (ev : expr -> nat -> option out) (es : list expr) (p : nat) : option out :=
  match es with
  | [] => Some (Succ p [], [])
  | e :: es' =>
      match ev e p with
      | None => None
      | Some (Fail, evs) => Some (Fail, evs)
      | Some (Succ p1 f1, evs1) =>
          match seq_ev ev es' p1 with
          | None => None
          | Some (Fail, evs2) => Some (Fail, evs1 ++ evs2)
          | Some (Succ p2 f2, evs2) => Some (Succ p2 (f1 ++ f2), evs1 ++ evs2)
          end
      end
  end.

(** ordered choice over a non-empty list; the empty list never occurs in trees the front end builds *)
Fixpoint alt_ev (ev : expr -> nat -> option out) (es : list expr) (p : nat) : option out :=
  match es with
  | [] => Some (Fail, [])
  | e :: es' =>
      match ev e p with
      | None => None
      | Some (Succ p1 f1, evs1) => Some (Succ p1 f1, evs1)
      | Some (Fail, evs1) =>
          match es' with
          | [] => Some (Fail, evs1)
          | _ => match alt_ev ev es' p with
                 | None => None
                 | Some (r, evs2) => Some (r, evs1 ++ evs2)
                 end
          end
      end
  end.

Fixpoint find_case_keys (cs : list (list rune * expr)) (c : rune) : option (list rune * expr) :=
  match cs with
  | [] => None
  | (keys, e) :: cs' => if existsb (Z.eqb c) keys then Some (keys, e) else find_case_keys cs' c
  end.
Definition find_case (cs : list (list rune * expr)) (c : rune) : option expr :=
  option_map snd (find_case_keys cs c).

Fixpoint peg_ev (n : nat) (e : expr) (p : nat) {struct n} : option out :=
  match n with
  | O => None
  | S n =>
    match e with
    | EDot => Some (term (fun _ => true) p)
    | EChar c => Some (term (Z.eqb c) p)
    | ERange lo hi => Some (term (in_range lo hi) p)
    | EName r =>
        match nth_error g r with
        | Some (RBody b) =>
            match peg_ev n b p with
            | None => None
            | Some (Fail, evs) => Some (Fail, evs)
            | Some (Succ p' f, evs) => Some (Succ p' [Node r p p' f], evs ++ [(r, (p, p'))])
            end
        | Some (RAct _) => Some (Succ p [Node r p p []], [(r, (p, p))])
        | _ => None
        end
    | EPred k => Some (if penv k p then Succ p [] else Fail, [])
    | EState _ | EAct _ | ENil => Some (Succ p [], [])
    | ESeq es => seq_ev (peg_ev n) es p
    | EAlt es => alt_ev (peg_ev n) es p
    | EAnd e1 =>
        match peg_ev n e1 p with
        | None => None
        | Some (Fail, evs) => Some (Fail, evs)
        | Some (Succ _ _, evs) => Some (Succ p [], evs)
        end
    | ENot e1 =>
        match peg_ev n e1 p with
        | None => None
        | Some (Fail, evs) => Some (Succ p [], evs)
        | Some (Succ _ _, evs) => Some (Fail, evs)
        end
    | EQuery e1 =>
        match peg_ev n e1 p with
        | None => None
        | Some (Fail, evs) => Some (Succ p [], evs)
        | Some (Succ p1 f1, evs) => Some (Succ p1 f1, evs)
        end
    | EStar e1 =>
        match peg_ev n e1 p with
        | None => None
        | Some (Fail, evs) => Some (Succ p [], evs)
        | Some (Succ p1 f1, evs1) =>
            match peg_ev n (EStar e1) p1 with
            | None => None
            | Some (Fail, evs2) => Some (Fail, evs1 ++ evs2)   (* unreachable: a star never fails *)
            | Some (Succ p2 f2, evs2) => Some (Succ p2 (f1 ++ f2), evs1 ++ evs2)
            end
        end
    | EPlus e1 =>
        match peg_ev n e1 p with
        | None => None
        | Some (Fail, evs) => Some (Fail, evs)
        | Some (Succ p1 f1, evs1) =>
            match peg_ev n (EStar e1) p1 with
            | None => None
            | Some (Fail, evs2) => Some (Fail, evs1 ++ evs2)
            | Some (Succ p2 f2, evs2) => Some (Succ p2 (f1 ++ f2), evs1 ++ evs2)
            end
        end
    | EPush e1 =>
        match peg_ev n e1 p with
        | None => None
        | Some (Fail, evs) => Some (Fail, evs)
        | Some (Succ p' f, evs) => Some (Succ p' [Node ptx p p' f], evs ++ [(ptx, (p, p'))])
        end
    | ESwitch cs d =>
        match nth_error buf p with
        | Some c => match find_case cs c with
                    | Some e1 => peg_ev n e1 p
                    | None => peg_ev n d p
                    end
        | None => peg_ev n d p
        end
    end
  end.

(** entry: parse from rule r at offset 0 *)
Definition peg_parse (n : nat) (r : nat) : option out := peg_ev n (EName r) 0.

End Sem.

(** The "first non-empty token that reached the furthest offset": left fold of
    "replace when non-empty and strictly further" over the events. *)
Definition upd_max (m t : tok) : tok :=
  if (negb (tk_begin t =? tk_end t) && (tk_end m <? tk_end t))%bool then t else m.
Definition zero_tok : tok := (0, (0, 0)).
Definition first_furthest (evs : list tok) : tok := fold_left upd_max evs zero_tok.
