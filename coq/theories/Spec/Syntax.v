(** Expressions and grammars, one constructor per node type the generator handles
    (tree.Type in /repo/tree/peg.go). Rules are referred to by their index in the grammar
    (= position in the tree's rule order = generated rule constant - 1). *)
From Coq Require Import List ZArith Bool.
Import ListNotations.

Definition rune := Z.
Definition endSymbol : rune := 1114112%Z.   (* 0x110000 *)

Inductive expr :=
| EDot
| EChar (c : rune)
| ERange (lo hi : rune)
| EName (r : nat)
| EPred (k : nat)            (* &{ ... }  semantic predicate number k *)
| EState (k : nat)           (* !{ ... }  state change, always succeeds *)
| EAct (k : nat)             (* { ... }   action; only in raw trees, link turns it into EName *)
| ENil                       (* empty alternative *)
| ESeq (es : list expr)
| EAlt (es : list expr)
| EAnd (e : expr)
| ENot (e : expr)
| EQuery (e : expr)
| EStar (e : expr)
| EPlus (e : expr)
| EPush (e : expr)           (* < e > *)
| ESwitch (cs : list (list rune * expr)) (d : expr).   (* TypeUnorderedAlternate, added by -switch *)

(** What a rule slot holds after Compile's link pass. *)
Inductive rbody :=
| RBody (e : expr)           (* Rule -> ImplicitPush[e, rule]  : run e, then add(rule, begin) *)
| RAct (k : nat)             (* ActionK <- ImplicitPush[Action k, rule] : add(ruleActionK, position) *)
| RNil.                      (* nil slot: PegText, undefined stub *)

Definition grammar := list rbody.

(** tokens: (rule, (begin, end)) *)
Definition tok := (nat * (nat * nat))%type.
Definition tk_rule (t : tok) := fst t.
Definition tk_begin (t : tok) := fst (snd t).
Definition tk_end (t : tok) := snd (snd t).

(** derivation trees: one node per rule application / capture / action *)
Inductive dt := Node (r b e : nat) (kids : list dt).

Fixpoint postorder (t : dt) : list tok :=
  match t with
  | Node r b e kids => (fix po (l : list dt) : list tok := match l with [] => [] | k :: l' => postorder k ++ po l' end) kids ++ [(r, (b, e))]
  end.
Definition flat (f : list dt) : list tok := flat_map postorder f.

Lemma postorder_node r b e kids : postorder (Node r b e kids) = flat kids ++ [(r, (b, e))].
Proof. reflexivity. Qed.

(** induction principle for expressions (nested lists) *)
Section ExprInd.
Variable P : expr -> Prop.
Hypothesis Hdot : P EDot.
Hypothesis Hchar : forall c, P (EChar c).
Hypothesis Hrange : forall lo hi, P (ERange lo hi).
Hypothesis Hname : forall r, P (EName r).
Hypothesis Hpred : forall k, P (EPred k).
Hypothesis Hstate : forall k, P (EState k).
Hypothesis Hact : forall k, P (EAct k).
Hypothesis Hnil : P ENil.
Hypothesis Hseq : forall es, Forall P es -> P (ESeq es).
Hypothesis Halt : forall es, Forall P es -> P (EAlt es).
Hypothesis Hand : forall e, P e -> P (EAnd e).
Hypothesis Hnot : forall e, P e -> P (ENot e).
Hypothesis Hquery : forall e, P e -> P (EQuery e).
Hypothesis Hstar : forall e, P e -> P (EStar e).
Hypothesis Hplus : forall e, P e -> P (EPlus e).
Hypothesis Hpush : forall e, P e -> P (EPush e).
Hypothesis Hswitch : forall cs d, Forall (fun c => P (snd c)) cs -> P d -> P (ESwitch cs d).

Fixpoint expr_ind2 (e : expr) : P e :=
  match e with
  | EDot => Hdot
  | EChar c => Hchar c
  | ERange lo hi => Hrange lo hi
  | EName r => Hname r
  | EPred k => Hpred k
  | EState k => Hstate k
  | EAct k => Hact k
  | ENil => Hnil
  | ESeq es => Hseq es ((fix go (l : list expr) : Forall P l :=
                           match l with [] => Forall_nil P | x :: l' => Forall_cons x (expr_ind2 x) (go l') end) es)
  | EAlt es => Halt es ((fix go (l : list expr) : Forall P l :=
                           match l with [] => Forall_nil P | x :: l' => Forall_cons x (expr_ind2 x) (go l') end) es)
  | EAnd e1 => Hand e1 (expr_ind2 e1)
  | ENot e1 => Hnot e1 (expr_ind2 e1)
  | EQuery e1 => Hquery e1 (expr_ind2 e1)
  | EStar e1 => Hstar e1 (expr_ind2 e1)
  | EPlus e1 => Hplus e1 (expr_ind2 e1)
  | EPush e1 => Hpush e1 (expr_ind2 e1)
  | ESwitch cs d =>
      Hswitch cs d ((fix go (l : list (list rune * expr)) : Forall (fun c => P (snd c)) l :=
                       match l with
                       | [] => Forall_nil _
                       | x :: l' => Forall_cons (P := fun c => P (snd c)) x (expr_ind2 (snd x)) (go l')
                       end) cs) (expr_ind2 d)
  end.
End ExprInd.
