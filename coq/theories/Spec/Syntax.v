(** Expressions and grammars, one constructor per node type the generator handles
    (tree.Type in /repo/tree/peg.go). Rules are referred to by their index in the grammar
    (= position in the tree's rule order = generated rule constant - 1). *)
From Coq Require Import List ZArith Bool.
Import ListNotations.

Definition rune := Z.
Definition endSymbol : rune := 1114112%Z.   (* 0x110000 *)

Inductive expr :=
| EDot
| EChar (c : rune)
| ERange (lo hi : rune)
| EName (r : nat)
| EPred (k : nat)            (* &{ ... }  semantic predicate number k *)
| EState (k : nat)           (* !{ ... }  state change, always succeeds *)
| EAct (k : nat)             (* { ... }   action; only in raw trees, link turns it into EName *)
| ENil                       (* empty alternative *)
| ESeq (es : list expr)
| EAlt (es : list expr)
| EAnd (e : expr)
| ENot (e : expr)
| EQuery (e : expr)
| EStar (e : expr)
| EPlus (e : expr)
| EPush (e : expr)           (* < e > *)
| ESwitch (cs : list (list rune * expr)) (d : expr).   (* TypeUnorderedAlternate, added by -switch *)

(** What a rule slot holds after Compile's link pass. *)
Inductive rbody :=
| RBody (e : expr)           (* Rule -> ImplicitPush[e, rule]  : run e, then add(rule, begin) *)
| RAct (k : nat)             (* ActionK <- ImplicitPush[Action k, rule] : add(ruleActionK, position) *)
| RNil.                      (* nil slot: PegText, undefined stub *)

Definition grammar := list rbody.

(** tokens: (rule, (begin, end)) *)
Definition tok := (nat * (nat * nat))%type.
Definition tk_rule (t : tok) := fst t.
Definition tk_begin (t : tok) := fst (snd t).
Definition tk_end (t : tok) := snd (snd t).

(** derivation trees: one node per rule application / capture / action *)
Inductive dt := Node (r b e : nat) (kids : list dt).

Fixpoint postorder (t : dt) : list tok :=
  match t with
  | Node r b e kids => (fix po (l : list dt) : list tok := match l with [] => [] | k :: l' => postorder k ++ po l' end) kids ++ [(r, (b, e))]
  end.
Definition flat (f : list dt) : list tok := flat_map postorder f.

Lemma postorder_node r b e kids : postorder (Node r b e kids) = flat kids ++ [(r, (b, e))].
Proof. reflexivity. Qed.
