(** Well-formed grammars (Ford): no rule reaches itself through head positions, no repetition of an
    expression that may succeed without consuming, every referenced rule is defined.
    [wf_b] checks these against a certificate (a nullability table and a rank per rule), which the
    harness computes (least fixpoint / topological order); the termination theorem only needs the
    check to succeed, not the way the certificate was found. *)
From Coq Require Import List ZArith Bool Arith.
From PegV Require Import Spec.Syntax.
Import ListNotations.

Section WF.
Variable g : grammar.
Variable tab : list bool.       (* tab[r] = true: rule r may succeed without consuming *)
Variable rank : list nat.

Definition tabr (r : nat) : bool := nth r tab true.
Definition rk (r : nat) : nat := nth r rank 0.

Fixpoint nul (e : expr) : bool :=
  match e with
  | EDot | EChar _ | ERange _ _ => false
  | EName r => tabr r
  | EPred _ | EState _ | EAct _ | ENil => true
  | ESeq es => forallb nul es
  | EAlt es => existsb nul es
  | EAnd _ | ENot _ | EQuery _ | EStar _ => true
  | EPlus e1 | EPush e1 => nul e1
  | ESwitch cs d => existsb (fun c => nul (snd c)) cs || nul d
  end.

(** rules in head position: reachable before anything has certainly been consumed *)
Fixpoint heads (e : expr) : list nat :=
  match e with
  | EName r => [r]
  | ESeq es =>
      (fix go (l : list expr) : list nat :=
         match l with
         | [] => []
         | x :: l' => heads x ++ (if nul x then go l' else [])
         end) es
  | EAlt es => flat_map heads es
  | EAnd e1 | ENot e1 | EQuery e1 | EStar e1 | EPlus e1 | EPush e1 => heads e1
  | ESwitch cs d => flat_map (fun c => heads (snd c)) cs ++ heads d
  | _ => []
  end.

(** local conditions: repetition operands must consume; names resolve; literals are code points *)
Fixpoint local_ok (e : expr) : bool :=
  match e with
  | EChar c => Z.ltb c endSymbol
  | ERange _ hi => Z.ltb hi endSymbol
  | EName r => match nth_error g r with Some (RBody _) | Some (RAct _) => true | _ => false end
  | ESeq es | EAlt es => forallb local_ok es
  | EStar e1 | EPlus e1 => negb (nul e1) && local_ok e1
  | EAnd e1 | ENot e1 | EQuery e1 | EPush e1 => local_ok e1
  | ESwitch cs d => forallb (fun c => local_ok (snd c)) cs && local_ok d
  | _ => true
  end.

Definition rule_wf (r : nat) (rb : rbody) : bool :=
  match rb with
  | RBody b =>
      local_ok b && implb (nul b) (tabr r) && forallb (fun r' => rk r' <? rk r) (heads b)
  | RAct _ => tabr r
  | RNil => true
  end.

Definition wf_b : bool :=
  (fix go (l : list rbody) (i : nat) : bool :=
     match l with
     | [] => true
     | rb :: l' => rule_wf i rb && go l' (S i)
     end) g 0.

End WF.

(** computing a certificate (not trusted: [wf_b] re-checks it) *)
Definition nul_step (g : grammar) (tab : list bool) : list bool :=
  map (fun rb => match rb with RBody b => nul tab b | RAct _ => true | RNil => true end) g.
Fixpoint iter {A} (n : nat) (f : A -> A) (x : A) : A := match n with O => x | S n => iter n f (f x) end.
Definition nul_table (g : grammar) : list bool := iter (S (length g)) (nul_step g) (map (fun _ => false) g).

(** ranks by iterated relaxation: rank r >= 1 + rank of every head rule; diverges (caught by wf_b) on cycles *)
Definition rank_step (g : grammar) (tab : list bool) (rank : list nat) : list nat :=
  map (fun rb => match rb with
                 | RBody b => fold_right (fun r' a => Nat.max (S (nth r' rank 0)) a) 0 (heads tab b)
                 | _ => 0
                 end) g.
Definition rank_table (g : grammar) (tab : list bool) : list nat :=
  iter (S (length g)) (rank_step g tab) (map (fun _ => 0) g).

Definition wf_auto (g : grammar) : bool :=
  let tab := nul_table g in wf_b g tab (rank_table g tab).

(** literals and switch keys are code points (below the end-of-input sentinel) *)
Fixpoint expr_ok (e : expr) : bool :=
  match e with
  | EChar c => Z.ltb c endSymbol
  | ERange lo hi => Z.ltb hi endSymbol
  | ESeq es | EAlt es => forallb expr_ok es
  | EAnd e1 | ENot e1 | EQuery e1 | EStar e1 | EPlus e1 | EPush e1 => expr_ok e1
  | ESwitch cs d => forallb (fun c => forallb (fun k => Z.ltb k endSymbol) (fst c) && expr_ok (snd c)) cs && expr_ok d
  | _ => true
  end.


(** executable version of good_grammar, used by the harness *)
Definition good_grammar_b (g : grammar) : bool :=
  forallb (fun rb => match rb with RBody b => expr_ok b | _ => true end) g.

