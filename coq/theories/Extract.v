(** Extraction of the executable model to OCaml. Only ExtrOcamlBasic is used: bool, option,
    unit, list, prod, sumbool, sumor map to OCaml's; nat, positive, N, Z stay Coq datatypes.
    coqc is run from the directory that should receive pegmodel.ml.
    The [x_*] names are the driver's entry points (unique names, so that extraction never renames them). *)
From Coq Require Import ExtrOcamlBasic List.
From PegV Require Import Spec.WF Model.SkipCheck Model.Optimize Model.Front Model.EmitFacts Model.Emit Model.SEmit Model.Premises Model.Link Model.Cli Generated.CliFacts Model.SetImpl Spec.Syntax Spec.Peg Model.Machine Model.Runtime Model.Analyses Model.Gen.
Extraction Language OCaml.

Definition x_set_run := SetImpl.run.
Definition x_set_has := SetImpl.has.
Definition x_set_len := SetImpl.len.
Definition x_set_elements := SetImpl.elements.
Definition x_set_intersects := SetImpl.intersects.
Definition x_set_equal := SetImpl.equal.

Definition x_mk_opts := Gen.mk_opts.
Definition x_run_history := Gen.run_history.
Definition x_spec_parse := Gen.spec_parse.
Definition x_first_furthest := Peg.first_furthest.
Definition x_flat := Syntax.flat.
Definition x_zero_state := Machine.zero_state.
Definition x_inline_table := Analyses.inline_table.
Definition x_asu_rule := Analyses.asu_rule.
Definition x_count_rules := Analyses.count_rules.
Definition x_execute := Runtime.execute.
Definition x_wf_auto := WF.wf_auto.
Definition x_peg_rule_type := EmitFacts.peg_rule_type.
Definition x_elab := Front.elab.
Definition x_sx_ok := Front.sx_ok.
Definition x_optimize := Optimize.optimize.
Definition x_fs_table := Optimize.fs_table.
Definition x_opt_ok := Optimize.opt_ok_b.
Definition x_link := Link.link.
(** the CheckAlwaysSucceeds table with the fuel computed once (same values as [asu_rule], see [x_asu_table_eq]) *)
Definition x_asu_table (g : Syntax.grammar) : list bool :=
  let fl := S (Analyses.gsize g) * S (length g) in
  map (fun rb => match rb with Syntax.RBody b => Analyses.asu_f g fl nil b | _ => true end) g.
Lemma map_seq_nth {A B} (f : A -> B) (h : nat -> B) l :
  forall k, (forall i x, nth_error l i = Some x -> h (k + i) = f x) -> map f l = map h (seq k (length l)).
Proof.
  induction l as [|a l IH]; intros k H; cbn; [reflexivity|]. f_equal.
  - rewrite <- (H 0 a eq_refl). f_equal. apply PeanoNat.Nat.add_0_r.
  - apply IH. intros i x Hx. rewrite <- (H (S i) x Hx). f_equal. symmetry. apply PeanoNat.Nat.add_succ_r.
Qed.
Lemma x_asu_table_eq g : x_asu_table g = map (Analyses.asu_rule g) (seq 0 (length g)).
Proof.
  unfold x_asu_table. apply map_seq_nth. intros i rb E. cbn. unfold Analyses.asu_rule. rewrite E. destruct rb; reflexivity.
Qed.
Definition x_emit_all (g : Syntax.grammar) (ast inline : bool) (undef : list bool) : list (option (list Emit.tok)) :=
  map (option_map (fun c => Emit.squash (Emit.flat c)))
      (let asul := x_asu_table g in
       Emit.emit_all g ast inline (fun r => nth r asul false) (fun r => nth r undef false)).
(** the same file with its statements (Model/SEmit.v), and the side condition of the theorem that says they
    implement the machine (Proofs/SEmitFile.v), for the correspondence run to evaluate per grammar *)
Definition x_semit_all (g : Syntax.grammar) (ptx : nat) (ast inline : bool) (undef : list bool) : list (option (list SEmit.scode)) :=
  let asul := x_asu_table g in
  SEmit.semit_all g ptx ast inline (fun r => nth r asul false) (fun r => nth r undef false).
Definition x_deep_table_b := SEmit.deep_table_b.
(** the two syntactic premises under which that side condition is a theorem (Model/Premises.v, Proofs/CountInline.v) *)
Definition x_alt2_b := Premises.grammar_alt2_b.
Definition x_closed_names_b := Premises.closed_names_b.
Definition x_good_grammar_b := WF.good_grammar_b.
Definition x_swok_b (g : Syntax.grammar) (inline : bool) : bool :=
  SkipCheck.grammar_swok_b g (fun r => nth r (Analyses.inline_table inline g) false) (S (Analyses.gsize g) * S (length g)).

Definition x_cli_model := Cli.cli_model CliFacts.fatal_on_error CliFacts.fatal_only_if_strict.
Definition x_cli_destination := Cli.destination.

Definition x_undefined := Analyses.undefined_names.
Definition x_unused := Analyses.unused_names.
Definition x_duplicates := Analyses.duplicate_names.
Definition x_leftrec := Analyses.leftrec_warnings.
Definition x_reached := Analyses.reached_names.
Definition x_closed_b := Analyses.closed_b.

Extraction "pegmodel.ml"
  x_undefined x_unused x_duplicates x_leftrec x_reached x_closed_b x_cli_model x_cli_destination
  x_set_run x_set_has x_set_len x_set_elements x_set_intersects x_set_equal
  x_mk_opts x_run_history x_spec_parse x_first_furthest x_flat x_zero_state
  x_inline_table x_asu_rule x_count_rules x_execute x_wf_auto x_good_grammar_b x_swok_b x_optimize x_fs_table x_opt_ok x_emit_all x_semit_all x_deep_table_b x_alt2_b x_closed_names_b x_link x_elab x_sx_ok x_peg_rule_type.
