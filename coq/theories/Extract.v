(** Extraction of the executable model to OCaml. Only ExtrOcamlBasic is used: bool, option,
    unit, list, prod, sumbool, sumor map to OCaml's; nat, positive, N, Z stay Coq datatypes.
    coqc is run from the directory that should receive pegmodel.ml.
    The [x_*] names are the driver's entry points (unique names, so that extraction never renames them). *)
From Coq Require Import ExtrOcamlBasic.
From PegV Require Import Model.SetImpl.
Extraction Language OCaml.

Definition x_set_run := SetImpl.run.
Definition x_set_has := SetImpl.has.
Definition x_set_len := SetImpl.len.
Definition x_set_elements := SetImpl.elements.
Definition x_set_intersects := SetImpl.intersects.
Definition x_set_equal := SetImpl.equal.

Extraction "pegmodel.ml"
  x_set_run x_set_has x_set_len x_set_elements x_set_intersects x_set_equal.
