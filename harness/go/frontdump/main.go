// frontdump drives the real front end (a copy of /repo/peg.peg.go placed beside this file at build
// time) and the real generator: for each request it parses the grammar text, dumps the raw rule tree,
// runs Tree.Compile, writes the generated parser, and dumps the tree again (linked / optimised,
// including the skip-check flags). Everything is read through exported accessors of package tree.
package main

import (
	"bufio"
	"bytes"
	"encoding/json"
	"fmt"
	"iter"
	"os"
	"strings"

	"github.com/pointlander/peg/tree"
)

type request struct {
	ID     string `json:"id"`
	Text   string `json:"text"`
	Inline bool   `json:"inline"`
	Switch bool   `json:"switch"`
	Noast  bool   `json:"noast"`
	Out    string `json:"out"`    // where to write the generated parser ("" = do not compile)
	Strict bool   `json:"strict"` // Tree.Strict
	Args   []string `json:"args"`
}

type response struct {
	ID       string `json:"id"`
	ParseErr string `json:"parse_err,omitempty"`
	Panic    string `json:"panic,omitempty"`
	Raw      string `json:"raw,omitempty"`
	Linked   string `json:"linked,omitempty"`
	CompErr  string `json:"compile_err,omitempty"`
	Rules    int    `json:"rules_count"`
	Bytes    int    `json:"bytes"`
}

type nodeI[N any] interface {
	comparable
	GetType() tree.Type
	String() string
	GetID() int
	Front() N
	Next() N
	Iterator() iter.Seq[N]
	ParentDetect() bool
	ParentMultipleKey() bool
}

func dump[N nodeI[N]](b *strings.Builder, n N, depth int) {
	var zero N
	if n == zero {
		b.WriteString("(null)")
		return
	}
	if depth > 2000 {
		b.WriteString("(deep)")
		return
	}
	t := n.GetType()
	fmt.Fprintf(b, "(%d %s %d", int(t), hexs(n.String()), n.GetID())
	if n.ParentDetect() {
		b.WriteString(" pd")
	}
	if n.ParentMultipleKey() {
		b.WriteString(" mk")
	}
	switch t {
	case tree.TypePush, tree.TypeImplicitPush:
		b.WriteString(" ")
		dump(b, n.Front(), depth+1)
		if f := n.Front(); f != zero {
			if s := f.Next(); s != zero {
				fmt.Fprintf(b, " (ref %s %d)", hexs(s.String()), s.GetID())
			}
		}
	default:
		for c := range n.Iterator() {
			b.WriteString(" ")
			dump(b, c, depth+1)
		}
	}
	b.WriteString(")")
}

func hexs(s string) string { return fmt.Sprintf("x%x", s) }

func dumpTree(p *Peg[uint32]) string {
	var b strings.Builder
	b.WriteString("(tree")
	for n := range p.Tree.Iterator() {
		b.WriteString(" ")
		dump(&b, n, 0)
	}
	b.WriteString(")")
	return b.String()
}

func handle(req request) (resp response) {
	resp.ID = req.ID
	defer func() {
		if r := recover(); r != nil {
			resp.Panic = fmt.Sprint(r)
		}
	}()
	p := &Peg[uint32]{Tree: tree.New(req.Inline, req.Switch, req.Noast), Buffer: req.Text}
	_ = p.Init(Pretty[uint32](false), Size[uint32](1<<15))
	if err := p.Parse(); err != nil {
		resp.ParseErr = err.Error()
		return
	}
	p.Execute()
	resp.Raw = dumpTree(p)
	if req.Out == "" {
		return
	}
	p.Strict = req.Strict
	var out bytes.Buffer
	args := req.Args
	if args == nil {
		args = []string{"peg", "grammar.peg"}
	}
	err := p.Compile(req.Out, args, &out)
	if err != nil {
		resp.CompErr = err.Error()
	}
	resp.Rules = p.RulesCount
	resp.Bytes = out.Len()
	resp.Linked = dumpTree(p)
	if out.Len() > 0 {
		if werr := os.WriteFile(req.Out, out.Bytes(), 0o644); werr != nil {
			resp.CompErr += " write: " + werr.Error()
		}
	}
	return
}

func main() {
	sc := bufio.NewScanner(os.Stdin)
	sc.Buffer(make([]byte, 1<<20), 1<<28)
	w := bufio.NewWriter(os.Stdout)
	par := 1
	if v := os.Getenv("FRONTDUMP_PAR"); v != "" {
		fmt.Sscan(v, &par)
	}
	if par > 1 {
		// independent trees compiled concurrently in one process (C09): groups of `par` goroutines
		var reqs []request
		for sc.Scan() {
			var req request
			if err := json.Unmarshal(sc.Bytes(), &req); err == nil {
				reqs = append(reqs, req)
			}
		}
		for i := 0; i < len(reqs); i += par {
			j := min(i+par, len(reqs))
			out := make([]response, j-i)
			done := make(chan bool, j-i)
			for k := i; k < j; k++ {
				go func(k int) { out[k-i] = handle(reqs[k]); done <- true }(k)
			}
			for k := i; k < j; k++ {
				<-done
			}
			for _, r := range out {
				js, _ := json.Marshal(r)
				fmt.Fprintf(w, "RESP %s\n", js)
			}
			w.Flush()
		}
		return
	}
	for sc.Scan() {
		var req request
		if err := json.Unmarshal(sc.Bytes(), &req); err != nil {
			continue
		}
		fmt.Fprintf(w, "BEGIN %s\n", req.ID)
		w.Flush()
		resp := handle(req)
		js, _ := json.Marshal(resp)
		fmt.Fprintf(w, "RESP %s\n", js)
		w.Flush()
	}
}
