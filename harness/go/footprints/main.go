// footprints reads tree/peg.go of the repository under test and extracts, for each goroutine started
// with wg.Go inside Tree.Compile (following calls to methods of *Tree), the Tree fields and captured
// variables it reads and writes (an over-approximation: every syntactic access counts), plus the
// places where map iteration order or another source of nondeterminism could leak into the output.
// Output: Coq definitions (Generated/Footprints.v).
package main

import (
	"fmt"
	"go/ast"
	"go/parser"
	"go/token"
	"os"
	"path/filepath"
	"sort"
	"strings"
)

type fp struct{ reads, writes map[string]bool }

var (
	fset      = token.NewFileSet()
	methods   = map[string]*ast.FuncDecl{} // methods of *Tree
	nodeWrite = map[string]bool{"SetString": true, "SetType": true, "SetID": true, "Init": true, "PushFront": true,
		"PopFront": true, "PushBack": true, "SetParentDetect": true, "SetParentMultipleKey": true}
	nodeMethods = map[string]bool{}
)

func root(e ast.Expr) ast.Expr {
	for {
		switch x := e.(type) {
		case *ast.IndexExpr:
			e = x.X
		case *ast.StarExpr:
			e = x.X
		case *ast.ParenExpr:
			e = x.X
		case *ast.SliceExpr:
			e = x.X
		default:
			return e
		}
	}
}

type walker struct {
	recv    string
	lo, hi  token.Pos // extent of the closure: variables declared outside are captured
	out     *fp
	visited map[string]bool
}

func (w *walker) cell(e ast.Expr) string {
	switch x := e.(type) {
	case *ast.SelectorExpr:
		if id, ok := x.X.(*ast.Ident); ok && id.Name == w.recv {
			if _, isM := methods[x.Sel.Name]; isM {
				return ""
			}
			if nodeMethods[x.Sel.Name] {
				return ""
			}
			return "t." + x.Sel.Name
		}
	case *ast.Ident:
		if x.Obj != nil && x.Obj.Kind == ast.Var {
			if d, ok := x.Obj.Decl.(ast.Node); ok && w.lo != 0 && (d.Pos() < w.lo || d.Pos() > w.hi) {
				return "var." + x.Name
			}
		}
	}
	return ""
}

func (w *walker) write(e ast.Expr) {
	if c := w.cell(root(e)); c != "" {
		w.out.writes[c] = true
	}
}

func (w *walker) walk(n ast.Node) {
	ast.Inspect(n, func(n ast.Node) bool {
		switch x := n.(type) {
		case *ast.AssignStmt:
			for _, l := range x.Lhs {
				w.write(l)
			}
		case *ast.IncDecStmt:
			w.write(x.X)
		case *ast.CallExpr:
			if sel, ok := x.Fun.(*ast.SelectorExpr); ok {
				if id, ok := sel.X.(*ast.Ident); ok && id.Name == w.recv {
					if m, isM := methods[sel.Sel.Name]; isM {
						if !w.visited[sel.Sel.Name] {
							w.visited[sel.Sel.Name] = true
							r := ""
							if m.Recv != nil && len(m.Recv.List) > 0 && len(m.Recv.List[0].Names) > 0 {
								r = m.Recv.List[0].Names[0].Name
							}
							sub := &walker{recv: r, out: w.out, visited: w.visited}
							sub.walk(m.Body)
						}
					}
				}
				if nodeMethods[sel.Sel.Name] {
					if nodeWrite[sel.Sel.Name] {
						w.out.writes["nodes"] = true
					} else {
						w.out.reads["nodes"] = true
					}
				}
			}
		case *ast.SelectorExpr:
			if c := w.cell(x); c != "" {
				w.out.reads[c] = true
			}
		case *ast.Ident:
			if c := w.cell(x); c != "" {
				w.out.reads[c] = true
			}
		}
		return true
	})
}

func main() {
	repo := os.Args[1]
	file := filepath.Join(repo, "tree", "peg.go")
	f, err := parser.ParseFile(fset, file, nil, 0)
	if err != nil {
		fmt.Fprintln(os.Stderr, err)
		os.Exit(1)
	}
	mapFields := map[string]bool{}
	for _, d := range f.Decls {
		switch x := d.(type) {
		case *ast.FuncDecl:
			if x.Recv != nil && len(x.Recv.List) == 1 {
				t := x.Recv.List[0].Type
				if st, ok := t.(*ast.StarExpr); ok {
					if id, ok := st.X.(*ast.Ident); ok {
						if id.Name == "Tree" {
							methods[x.Name.Name] = x
						}
						if id.Name == "node" {
							nodeMethods[x.Name.Name] = true
						}
					}
				}
				if id, ok := t.(*ast.Ident); ok && id.Name == "Type" {
					nodeMethods[x.Name.Name] = true
				}
			}
		case *ast.GenDecl:
			for _, sp := range x.Specs {
				if ts, ok := sp.(*ast.TypeSpec); ok && ts.Name.Name == "Tree" {
					if st, ok := ts.Type.(*ast.StructType); ok {
						for _, fl := range st.Fields.List {
							if _, ok := fl.Type.(*ast.MapType); ok {
								for _, nm := range fl.Names {
									mapFields[nm.Name] = true
								}
							}
						}
					}
				}
			}
		}
	}
	compile := methods["Compile"]
	var closures []*ast.FuncLit
	if compile != nil {
		ast.Inspect(compile.Body, func(n ast.Node) bool {
			if c, ok := n.(*ast.CallExpr); ok {
				if sel, ok := c.Fun.(*ast.SelectorExpr); ok && sel.Sel.Name == "Go" && len(c.Args) == 1 {
					if fl, ok := c.Args[0].(*ast.FuncLit); ok {
						closures = append(closures, fl)
					}
				}
			}
			if _, ok := n.(*ast.GoStmt); ok {
				closures = append(closures, nil) // an unexpected goroutine: forces a mismatch
			}
			return true
		})
	}
	recv := "t"
	if compile != nil && len(compile.Recv.List[0].Names) > 0 {
		recv = compile.Recv.List[0].Names[0].Name
	}
	var fps []*fp
	cells := map[string]bool{}
	for _, c := range closures {
		o := &fp{map[string]bool{}, map[string]bool{}}
		if c != nil {
			w := &walker{recv: recv, lo: c.Pos(), hi: c.End(), out: o, visited: map[string]bool{}}
			w.walk(c.Body)
		} else {
			o.writes["unknown-goroutine"] = true
		}
		// a written cell is not also listed as read
		for k := range o.writes {
			delete(o.reads, k)
			cells[k] = true
		}
		for k := range o.reads {
			cells[k] = true
		}
		fps = append(fps, o)
	}
	var names []string
	for k := range cells {
		names = append(names, k)
	}
	sort.Strings(names)
	id := map[string]int{}
	for i, n := range names {
		id[n] = i
	}
	list := func(m map[string]bool) string {
		var xs []string
		var ks []string
		for k := range m {
			ks = append(ks, k)
		}
		sort.Strings(ks)
		for _, k := range ks {
			xs = append(xs, fmt.Sprint(id[k]))
		}
		return "[" + strings.Join(xs, "; ") + "]"
	}
	// nondeterminism sources in tree/*.go and set/*.go
	var mapRanges, nondet []string
	for _, dir := range []string{"tree", "set"} {
		files, _ := filepath.Glob(filepath.Join(repo, dir, "*.go"))
		for _, fn := range files {
			if strings.HasSuffix(fn, "_test.go") {
				continue
			}
			ff, err := parser.ParseFile(fset, fn, nil, 0)
			if err != nil {
				continue
			}
			for _, im := range ff.Imports {
				p := strings.Trim(im.Path.Value, `"`)
				if p == "time" || p == "math/rand" || p == "math/rand/v2" || p == "crypto/rand" {
					nondet = append(nondet, fmt.Sprintf("import %s in %s", p, filepath.Base(fn)))
				}
			}
			ast.Inspect(ff, func(n ast.Node) bool {
				switch x := n.(type) {
				case *ast.RangeStmt:
					if sel, ok := x.X.(*ast.SelectorExpr); ok && mapFields[sel.Sel.Name] {
						mapRanges = append(mapRanges, fmt.Sprintf("%s:%d range over %s", filepath.Base(fn), fset.Position(x.Pos()).Line, sel.Sel.Name))
					}
					if c, ok := x.X.(*ast.CallExpr); ok {
						if s2, ok := c.Fun.(*ast.SelectorExpr); ok && (s2.Sel.Name == "Keys" || s2.Sel.Name == "Values" || s2.Sel.Name == "All") {
							if id2, ok := s2.X.(*ast.Ident); ok && id2.Name == "maps" {
								mapRanges = append(mapRanges, fmt.Sprintf("%s:%d range over maps.%s", filepath.Base(fn), fset.Position(x.Pos()).Line, s2.Sel.Name))
							}
						}
					}
				case *ast.CallExpr:
					if s2, ok := x.Fun.(*ast.SelectorExpr); ok {
						if id2, ok := s2.X.(*ast.Ident); ok && id2.Name == "os" && (s2.Sel.Name == "Getenv" || s2.Sel.Name == "Environ" || s2.Sel.Name == "Getpid" || s2.Sel.Name == "Hostname") {
							nondet = append(nondet, fmt.Sprintf("%s:%d os.%s", filepath.Base(fn), fset.Position(x.Pos()).Line, s2.Sel.Name))
						}
					}
				case *ast.BasicLit:
					if x.Kind == token.STRING && strings.Contains(x.Value, "%p") {
						nondet = append(nondet, fmt.Sprintf("%s:%d %%p", filepath.Base(fn), fset.Position(x.Pos()).Line))
					}
				}
				return true
			})
		}
	}
	fmt.Println("(** Generated by harness/go/footprints from tree/peg.go of the tree under test. Do not edit. *)")
	fmt.Println("From Coq Require Import List String.\nImport ListNotations.\nOpen Scope string_scope.")
	var qn []string
	for _, n := range names {
		qn = append(qn, `"`+n+`"`)
	}
	fmt.Printf("Definition cell_names : list string := [%s].\n", strings.Join(qn, "; "))
	fmt.Printf("Definition goroutines : nat := %d.\n", len(fps))
	for i := 0; i < 2; i++ {
		if i < len(fps) {
			fmt.Printf("Definition g%d_reads : list nat := %s.\nDefinition g%d_writes : list nat := %s.\n", i+1, list(fps[i].reads), i+1, list(fps[i].writes))
		} else {
			fmt.Printf("Definition g%d_reads : list nat := [].\nDefinition g%d_writes : list nat := [].\n", i+1, i+1)
		}
	}
	q := func(xs []string) string {
		var o []string
		for _, x := range xs {
			o = append(o, `"`+x+`"`)
		}
		return "[" + strings.Join(o, "; ") + "]"
	}
	fmt.Printf("Definition map_ranges : list string := %s.\n", q(mapRanges))
	fmt.Printf("Definition nondet_sources : list string := %s.\n", q(nondet))
}
