// setdrv runs operation sequences on the real set package (built from the repository under test)
// and prints the same transcript format as the extracted model's "set" command.
package main

import (
	"bufio"
	"fmt"
	"os"
	"strconv"
	"strings"
	"time"

	"github.com/pointlander/peg/set"
)

var probes = []rune{-1, 0, 1, 2, 3, 4, 5, 6, 7, 8, 9, 10, 0x10FFFE, 0x10FFFF, 0x110000, 0x110001}

func nodes(s *set.Set) string {
	var parts []string
	n := s.Head.Forward
	count := 0
	for n != nil && n.Forward != nil {
		parts = append(parts, fmt.Sprintf("%d-%d", n.Begin, n.End))
		n = n.Forward
		count++
		if count > 100000 {
			return "CYCLE"
		}
	}
	return strings.Join(parts, ",")
}

func dumpStore(b *strings.Builder, st []*set.Set) {
	for i, s := range st {
		nd := nodes(s)
		if nd == "CYCLE" {
			fmt.Fprintf(b, " s%d{CYCLE}", i)
			continue
		}
		l := s.Len()
		str := "big"
		if l <= 64 {
			str = s.String()
		}
		has := ""
		for _, x := range probes {
			if s.Has(x) {
				has += "1"
			} else {
				has += "0"
			}
		}
		fmt.Fprintf(b, " s%d{%s|%d|%s|%s}", i, nd, l, str, has)
	}
	for i, a := range st {
		for j, c := range st {
			x, y := '-', '-'
			if a.Intersects(c) {
				x = 'I'
			}
			if a.Equal(c) {
				y = 'E'
			}
			fmt.Fprintf(b, " p%d.%d=%c%c", i, j, x, y)
		}
	}
}

func atoi(s string) int {
	v, err := strconv.Atoi(s)
	if err != nil {
		panic(err)
	}
	return v
}

func runCase(id, opss string) (out string) {
	var b strings.Builder
	b.WriteString("set " + id)
	defer func() {
		if r := recover(); r != nil {
			out = b.String() + fmt.Sprintf(" PANIC(%v)", r)
		}
	}()
	var st []*set.Set
	for _, op := range strings.Split(opss, ";") {
		f := strings.Fields(op)
		if len(f) == 0 {
			continue
		}
		switch f[0] {
		case "N":
			st = append(st, set.NewSet())
		case "A":
			i := atoi(f[1])
			if i < len(st) {
				st[i].AddRange(rune(atoi(f[2])), rune(atoi(f[3])))
			}
		case "C":
			st = append(st, st[atoi(f[1])].Copy())
		case "U":
			st = append(st, st[atoi(f[1])].Union(st[atoi(f[2])]))
		case "X":
			st = append(st, st[atoi(f[1])].Complement(rune(atoi(f[2]))))
		}
		b.WriteString(" |")
		dumpStore(&b, st)
	}
	return b.String()
}

func main() {
	sc := bufio.NewScanner(os.Stdin)
	sc.Buffer(make([]byte, 1<<20), 1<<26)
	w := bufio.NewWriter(os.Stdout)
	defer w.Flush()
	for sc.Scan() {
		line := sc.Text()
		f := strings.SplitN(line, " ", 3)
		if len(f) < 2 || f[0] != "set" {
			continue
		}
		ops := ""
		if len(f) == 3 {
			ops = f[2]
		}
		ch := make(chan string, 1)
		go func() { ch <- runCase(f[1], ops) }()
		select {
		case r := <-ch:
			fmt.Fprintln(w, r)
		case <-time.After(5 * time.Second):
			fmt.Fprintln(w, "set "+f[1]+" TIMEOUT")
		}
	}
}
