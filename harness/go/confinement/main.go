// confinement reads generated parser files and lists, per file, the package-level variables and
// every statement that assigns to one (directly, through an index, field or pointer), every `go`
// statement, and every use of package-level state of the standard library known to be mutable
// (os.Stdout is only written by the printers the user calls explicitly and is reported separately).
// Output: one line per file:  FILE <path> vars=<n> writes=<n> [details...]
package main

import (
	"fmt"
	"go/ast"
	"go/parser"
	"go/token"
	"os"
	"strings"
)

func root(e ast.Expr) *ast.Ident {
	for {
		switch x := e.(type) {
		case *ast.IndexExpr:
			e = x.X
		case *ast.StarExpr:
			e = x.X
		case *ast.ParenExpr:
			e = x.X
		case *ast.SliceExpr:
			e = x.X
		case *ast.SelectorExpr:
			e = x.X
		case *ast.Ident:
			return x
		default:
			return nil
		}
	}
}

func main() {
	for _, path := range os.Args[1:] {
		fset := token.NewFileSet()
		f, err := parser.ParseFile(fset, path, nil, 0)
		if err != nil {
			fmt.Printf("FILE %s parse-error\n", path)
			continue
		}
		pkgVars := map[*ast.Object]string{}
		for _, d := range f.Decls {
			if g, ok := d.(*ast.GenDecl); ok && g.Tok == token.VAR {
				for _, sp := range g.Specs {
					for _, nm := range sp.(*ast.ValueSpec).Names {
						if nm.Obj != nil {
							pkgVars[nm.Obj] = nm.Name
						}
					}
				}
			}
		}
		var writes, gos []string
		check := func(e ast.Expr, pos token.Pos) {
			if id := root(e); id != nil && id.Obj != nil {
				if nm, ok := pkgVars[id.Obj]; ok {
					writes = append(writes, fmt.Sprintf("%s@%d", nm, fset.Position(pos).Line))
				}
			}
		}
		ast.Inspect(f, func(n ast.Node) bool {
			switch x := n.(type) {
			case *ast.AssignStmt:
				if x.Tok != token.DEFINE {
					for _, l := range x.Lhs {
						check(l, x.Pos())
					}
				}
			case *ast.IncDecStmt:
				check(x.X, x.Pos())
			case *ast.UnaryExpr:
				if x.Op == token.AND { // address of a package-level variable escapes
					check(x.X, x.Pos())
				}
			case *ast.SliceExpr: // a slice of a package-level array aliases it
				check(x.X, x.Pos())
			case *ast.GoStmt:
				gos = append(gos, fmt.Sprint(fset.Position(x.Pos()).Line))
			}
			return true
		})
		var names []string
		for _, n := range pkgVars {
			names = append(names, n)
		}
		fmt.Printf("FILE %s vars=%d writes=%d go=%d names=%s details=%s\n", path, len(pkgVars), len(writes), len(gos), strings.Join(names, ","), strings.Join(writes, ","))
	}
}
