// confinement reads generated parser files and lists, per file, the package-level variables and
// every statement that assigns to one (directly, through an index, field or pointer), every `go`
// statement, and every use of package-level state of the standard library known to be mutable
// (os.Stdout is only written by the printers the user calls explicitly and is reported separately).
// Output: one line per file:  FILE <path> vars=<n> writes=<n> [details...]
package main

import (
	"fmt"
	"go/ast"
	"go/parser"
	"go/token"
	"os"
	"strings"
)

func root(e ast.Expr) *ast.Ident {
	for {
		switch x := e.(type) {
		case *ast.IndexExpr:
			e = x.X
		case *ast.StarExpr:
			e = x.X
		case *ast.ParenExpr:
			e = x.X
		case *ast.SliceExpr:
			e = x.X
		case *ast.SelectorExpr:
			e = x.X
		case *ast.Ident:
			return x
		default:
			return nil
		}
	}
}

var basic = map[string]bool{"string": true, "bool": true, "rune": true, "byte": true, "int": true, "int8": true, "int16": true,
	"int32": true, "int64": true, "uint": true, "uint8": true, "uint16": true, "uint32": true, "uint64": true, "uintptr": true,
	"float32": true, "float64": true}

func plain(t ast.Expr) bool {
	switch x := t.(type) {
	case *ast.Ident:
		return basic[x.Name]
	case *ast.ArrayType:
		return x.Len != nil && plain(x.Elt)
	case *ast.ParenExpr:
		return plain(x.X)
	}
	return false
}

func main() {
	for _, path := range os.Args[1:] {
		fset := token.NewFileSet()
		f, err := parser.ParseFile(fset, path, nil, 0)
		if err != nil {
			fmt.Printf("FILE %s parse-error\n", path)
			continue
		}
		pkgVars := map[*ast.Object]string{}
		var writes, gos []string
		for _, d := range f.Decls {
			if g, ok := d.(*ast.GenDecl); ok && g.Tok == token.VAR {
				for _, sp := range g.Specs {
					vs := sp.(*ast.ValueSpec)
					for i, nm := range vs.Names {
						if nm.Obj != nil {
							pkgVars[nm.Obj] = nm.Name
						}
						// a package-level variable must be a plain value (basic type or array of such): anything that
						// can hold or hand out a reference (map, slice, pointer, chan, func, interface, struct such as
						// sync.Pool, or a type this tool cannot see through) is shared mutable state
						t := vs.Type
						if t == nil && i < len(vs.Values) {
							if cl, ok := vs.Values[i].(*ast.CompositeLit); ok {
								t = cl.Type
							} else if bl, ok := vs.Values[i].(*ast.BasicLit); ok {
								_ = bl
								t = ast.NewIdent("string")
							}
						}
						if !plain(t) {
							writes = append(writes, fmt.Sprintf("%s:reference-typed@%d", nm.Name, fset.Position(nm.Pos()).Line))
						}
					}
				}
			}
		}
		check := func(e ast.Expr, pos token.Pos) {
			if id := root(e); id != nil && id.Obj != nil {
				if nm, ok := pkgVars[id.Obj]; ok {
					writes = append(writes, fmt.Sprintf("%s@%d", nm, fset.Position(pos).Line))
				}
			}
		}
		ast.Inspect(f, func(n ast.Node) bool {
			switch x := n.(type) {
			case *ast.AssignStmt:
				if x.Tok != token.DEFINE {
					for _, l := range x.Lhs {
						check(l, x.Pos())
					}
				}
			case *ast.IncDecStmt:
				check(x.X, x.Pos())
			case *ast.UnaryExpr:
				if x.Op == token.AND { // address of a package-level variable escapes
					check(x.X, x.Pos())
				}
			case *ast.SliceExpr: // a slice of a package-level array aliases it
				check(x.X, x.Pos())
			case *ast.CallExpr: // a method called on a package-level variable may have a pointer receiver
				if sel, ok := x.Fun.(*ast.SelectorExpr); ok {
					check(sel.X, x.Pos())
				}
			case *ast.GoStmt:
				gos = append(gos, fmt.Sprint(fset.Position(x.Pos()).Line))
			}
			return true
		})
		var names []string
		for _, n := range pkgVars {
			names = append(names, n)
		}
		fmt.Printf("FILE %s vars=%d writes=%d go=%d names=%s details=%s\n", path, len(pkgVars), len(writes), len(gos), strings.Join(names, ","), strings.Join(writes, ","))
	}
}
