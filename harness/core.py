"""The shared correspondence batch: random grammars -> real generator -> compiled parsers, run on inputs,
compared with the extracted model (machine + reference semantics) observable by observable.
Results are cached per (working tree, model, seed, tier) so the properties that share the batch pay once."""
import hashlib
import json
import os
import re

from . import common as C
from . import peglib as P
from . import emitskel
from . import batch as B

FUEL = 4000


def goquote(runes):
    """strconv.Quote for the characters the generators use; None if unsure"""
    out = ['"']
    for c in runes:
        if c == 34:
            out.append('\\"')
        elif c == 92:
            out.append("\\\\")
        elif 32 <= c < 127:
            out.append(chr(c))
        elif c in (7, 8, 12, 10, 13, 9, 11):
            out.append({7: "\\a", 8: "\\b", 12: "\\f", 10: "\\n", 13: "\\r", 9: "\\t", 11: "\\v"}[c])
        elif c < 32 or c == 127:
            out.append("\\x%02x" % c)
        elif c in (0xE9, 0x1F600, 0xFFFD, 0x4E16, 0x754C):
            out.append(chr(c))
        else:
            return None
    out.append('"')
    return "".join(out)


def gounquote(s):
    """inverse of strconv.Quote (subset sufficient for messages)"""
    assert s[0] == '"' and s[-1] == '"'
    s = s[1:-1]
    out, i = [], 0
    simple = {"a": 7, "b": 8, "f": 12, "n": 10, "r": 13, "t": 9, "v": 11, "\\": 92, '"': 34, "'": 39}
    while i < len(s):
        c = s[i]
        if c != "\\":
            out.append(ord(c)); i += 1; continue
        d = s[i + 1]
        if d in simple:
            out.append(simple[d]); i += 2
        elif d == "x":
            out.append(int(s[i + 2:i + 4], 16)); i += 4
        elif d == "u":
            out.append(int(s[i + 2:i + 6], 16)); i += 6
        elif d == "U":
            out.append(int(s[i + 2:i + 10], 16)); i += 10
        else:
            out.append(int(s[i + 1:i + 4], 8)); i += 4
    return out


MSG_RE = re.compile(r"^\nparse error near (\S+) \(line (\d+) symbol (\d+) - line (\d+) symbol (\d+)\):\n(.*)\n$", re.S)


def gen_grammars(ctx, n, style="mixed"):
    gs = []
    for i in range(n):
        gg = [P.GGen, P.GGenBT, P.GGenSW, P.GGenIN][i % 4](ctx.rng)
        rules = gg.grammar()
        gs.append(dict(id="g%d" % i, rules=rules, nact=gg.nact))
    return gs


def extra_grammars(ctx, n):
    """corner shapes (peglib.GGenX), each from a generator of its own so that the other grammars of the batch stay as they are"""
    import random
    gs = []
    for i in range(n):
        gg = P.GGenX(random.Random("%d/%s/x%d" % (ctx.seed, ctx.tier, i)))
        gs.append(dict(id="x%d" % i, rules=gg.grammar(), nact=max(gg.nact, 1)))
    return gs


def corpus_grammars():
    """hand-written shapes: backtracking with captures/actions in failing branches and lookahead, memo revisits"""
    A = lambda k: ("act", k)
    c = lambda ch: ("chr", ord(ch))
    N = lambda r: ("name", r)
    gs = []
    gs.append([("R0", ("seq", [("alt", [("seq", [N("R1"), c("x")]), ("seq", [N("R1"), c("y")]), ("seq", [N("R1"), N("R1")])]), ("not", ("dot",))])),
               ("R1", ("alt", [("seq", [("push", ("plus", ("cls", False, False, [("r", 97, 99)]))), A(0)]), ("seq", [c("d"), A(1)])]))])
    gs.append([("R0", ("seq", [("and", ("seq", [N("R1"), c("b")])), N("R1"), ("star", N("R2")), ("not", ("dot",))])),
               ("R1", ("push", ("seq", [c("a"), A(0)]))),
               ("R2", ("alt", [("seq", [("push", c("b")), A(1), c("c")]), ("seq", [("push", c("b")), A(2)])]))])
    gs.append([("R0", ("seq", [("star", ("alt", [("seq", [N("R1"), c("\n")]), N("R1")])), ("not", ("dot",))])),
               ("R1", ("push", ("plus", ("cls", True, False, [("c", 10)]))))])
    gs.append([("R0", ("seq", [("q", ("seq", [N("R1"), c("c")])), ("q", ("seq", [N("R1"), c("d")])), N("R1"), ("not", ("dot",))])),
               ("R1", ("seq", [("push", ("seq", [c("a"), ("q", N("R2"))])), A(0)])),
               ("R2", ("seq", [c("b"), A(1)]))])
    gs.append([("R0", ("seq", [("not", ("seq", [N("R1"), c("z")])), ("push", ("seq", [N("R1"), ("push", ("star", ("dot",)))])), A(0)])),
               ("R1", ("plus", ("alt", [("istr", [97]), ("cls", False, True, [("r", 98, 99)])])))])
    out = [dict(id="c%d" % i, rules=r, nact=3) for i, r in enumerate(gs)]
    # minimised failures kept as corpus (they run first, with the input that separated implementation and model pinned):
    # a memoised zero-width success replayed beyond every non-empty token, in a parse that then fails (seed C06-replay-maxtoken-guard)
    out.append(dict(id="c%d" % len(out), nact=3, pinned=["ycw", "bzxw", "bbyw"], rules=[
        ("R0", ("seq", [("seq", [("plus", ("alt", [("seq", [("and", ("seq", [("push", N("M0")), c("z")])), N("T0"), N("T0"), c("y")]),
                                                    ("seq", [N("M0"), c("y")]),
                                                    ("seq", [("and", ("seq", [("push", N("T1")), c("a")])), N("M0"), N("T1"), c("z")]),
                                                    N("T0")])),
                                 ("q", ("seq", [c("w"), N("M1")]))]), ("not", ("dot",))])),
        ("M0", ("seq", [N("T1"), N("T1"), A(0)])),
        ("M1", ("alt", [("seq", [N("T1"), N("T1")]), N("T1")])),
        ("T0", ("push", c("b"))),
        ("T1", ("q", c("b")))]))
    out.append(dict(id="c%d" % len(out), nact=3, pinned=["d,\nz", "d,z", "dcx"], rules=[
        ("R0", ("seq", [("seq", [("alt", [("seq", [N("T2"), N("T1"), c("x")]),
                                           ("seq", [("not", ("seq", [("push", N("M0")), A(0), c("a")])), N("T2"), c(","), N("T1"), c("z")]),
                                           ("seq", [N("T2"), c(","), N("T1"), c(","), c("z")])]),
                                 ("q", ("seq", [c("w"), N("T0")]))]), ("not", ("dot",))])),
        ("M0", ("seq", [N("T1"), N("T2")])),
        ("T0", c("d")),
        ("T1", ("push", ("star", c("c")))),
        ("T2", c("d"))]))
    # a capture completed by an abandoned iteration of a rule-free repetition, then an action (seed C04-rulefree-loop-no-tokenindex)
    cls = ("cls", False, False, [("r", 97, 99)])
    out.append(dict(id="c%d" % len(out), nact=3, pinned=["a,b", "a,b,c", "b", "a,"], rules=[
        ("R0", ("seq", [("star", ("seq", [("push", cls), c(",")])), A(0), ("q", cls), ("not", ("dot",))]))]))
    out.append(dict(id="c%d" % len(out), nact=3, pinned=["a,b", "ab", "a,a,b"], rules=[
        ("R0", ("seq", [("plus", ("seq", [("push", cls), ("q", c(","))])), A(0), ("q", ("seq", [("push", cls), c(";"), A(1)])), ("star", cls), ("not", ("dot",))]))]))
    # lookahead as a whole alternative that is not the last: the next alternative must start where the choice started
    # (seed C01-alt-norestore-lookahead)
    out.append(dict(id="c%d" % len(out), nact=3, pinned=["acb\n", "acb", "\n", "ab", "acc"], rules=[
        ("R0", ("seq", [("plus", N("R1")), N("R2"), ("not", ("dot",))])),
        ("R1", ("seq", [("alt", [("and", ("seq", [c("a"), c("b")])), ("seq", [c("a"), c("c")]), ("not", c("c"))]), cls])),
        ("R2", ("alt", [("not", ("dot",)), c("\n")]))]))
    # a choice that -switch compiles into a switch, directly inside a repetition, one case recording a token before the
    # rest of the case fails (seed C03-tokenfree-backtrack)
    out.append(dict(id="c%d" % len(out), nact=3, pinned=["hf", "hfg", "dhf", "fgf", "hfgd"], rules=[
        ("S", ("seq", [N("R0"), ("q", c("f")), ("not", ("dot",))])),
        ("R0", ("plus", ("alt", [("seq", [("push", c("f")), c("g")]), c("h"), c("d")])))]))
    # a choice whose alternatives' first sets are pairwise disjoint and cover every code point: under -switch the end
    # symbol still reaches the default clause (seed C13-switch-default-full-cover)
    out.append(dict(id="c%d" % len(out), nact=3, pinned=["", "a", "a\u00e9\u65e5", "\U0010ffff", "\x00\x7f\x80"], rules=[
        ("R0", ("seq", [("star", N("R1")), ("not", ("dot",))])),
        ("R1", ("alt", [("cls", False, False, [("r", 0, 0x7F)]), ("cls", False, False, [("r", 0x80, 0x7FF)]), ("cls", False, False, [("r", 0x800, 0x10FFFF)])]))]))
    # an error token whose first rune is a line break (seed C11-endcol-newline-first)
    out.append(dict(id="c%d" % len(out), nact=3, pinned=["ab\ncd\nab!", "\nab!", "a\nb\n!", "ab\n\ncd"], rules=[
        ("R0", ("seq", [("star", N("R1")), ("not", ("dot",))])),
        ("R1", ("alt", [("seq", [c("\n"), ("plus", cls)]), ("plus", cls)]))]))
    # rules that re-enter each other three times through non-left positions with first sets of equal size: the first-set
    # iteration of -switch must run to a real fixed point (seed C02-fixpoint-by-size)
    out.append(dict(id="c%d" % len(out), nact=3, pinned=["xxuxucxucd", "xxuxuc", "xxu", "xxuxucxf"], rules=[
        ("Top", ("seq", [N("S"), ("not", ("dot",))])),
        ("S", ("seq", [c("x"), ("q", N("T"))])),
        ("T", ("seq", [N("U"), ("q", N("W"))])),
        ("U", ("seq", [N("S"), c("u")])),
        ("W", ("seq", [N("C"), ("q", N("D"))])),
        ("C", ("seq", [N("T"), c("c")])),
        ("D", ("alt", [("seq", [N("W"), c("d")]), ("seq", [c("x"), c("f")]), c("k"), c("l")]))]))
    # the first rule re-entered from below, exactly once: Parse's own entry counts as a use, so it is never compiled in
    # place (seed C02-start-rule-not-counted); the reference heads an alternative of a choice -switch rewrites, in a
    # rule used twice - and the everyday form of the same shape, an expression grammar
    out.append(dict(id="c%d" % len(out), nact=3, pinned=["(ab)", "xab)", "((ab)b)", "zbb)", "(a(bb))", "(ab"], rules=[
        ("Start", ("seq", [c("("), N("Item"), N("Item"), c(")")])),
        ("Item", ("alt", [c("a"), c("b"), N("Start")]))]))
    dig = ("cls", False, False, [("r", 48, 57)])
    out.append(dict(id="c%d" % len(out), nact=3, pinned=["1+(2-3)", "(1)", "((7))+1", "1+", "(1+2", "x", ")1"], rules=[
        ("Expr", ("seq", [N("Term"), ("star", ("seq", [("alt", [c("+"), c("-")]), N("Term")]))])),
        ("Term", ("alt", [("seq", [c("("), N("Expr"), c(")")]), ("push", ("plus", dig)), ("seq", [c("-"), N("Term")])]))]))
    # a derivation nested deeper than any fixed indentation buffer: the printers indent by depth, one space per level
    # (seed C05-print-indent-capped)
    out.append(dict(id="c%d" % len(out), nact=3, pinned=["(" * 70 + "a" + ")" * 70, "(" * 130 + "\u00e9b" + ")" * 130, "((c))", "(" * 66 + "a" + ")" * 65], rules=[
        ("Doc", ("seq", [N("G"), ("not", ("dot",))])),
        ("G", ("alt", [("seq", [c("("), N("G"), c(")")]), N("Leaf")])),
        ("Leaf", ("push", ("plus", ("alt", [cls, c("\u00e9")]))))]))
    # line ends written \r\n: an error token that begins or ends on the \r or on the \n of a pair, or after a lone \r
    # (seed C11-crlf-skips-offset-lookup)
    out.append(dict(id="c%d" % len(out), nact=3, pinned=["abc\r\n123", "abc\r\nab\r\n9", "ab\r\n", "a\rb", "a\r\n\r\nb", "ab\nc\r\n!", "\r\n"], rules=[
        ("Doc", ("seq", [N("Word"), ("star", ("seq", [N("EOL"), N("Word")])), ("not", ("dot",))])),
        ("Word", ("plus", cls)),
        ("EOL", ("alt", [("seq", [c("\r"), c("\n")]), c("\n"), c("\r")]))]))
    return out


def make_inputs(ctx, g, n):
    # one generator per grammar, derived from the run's seed and the grammar's id: adding a grammar to the corpus
    # leaves the inputs of every other grammar as they were
    import random
    gen = P.grammar_inputs(random.Random("%d/%s/%s" % (ctx.seed, ctx.tier, g["id"])), g["rules"], n)
    pinned = list(g.get("pinned", []))
    return pinned + gen[:max(0, n - len(pinned))]


def core_key(ctx, bd):
    h = hashlib.sha256()
    for f in ("core.py", "batch.py", "peglib.py", "common.py", "emitskel.py"):
        h.update(open(os.path.join(C.VERIF, "harness", f), "rb").read())
    for f in os.listdir(os.path.join(C.VERIF, "harness", "gotmpl")):
        h.update(open(os.path.join(C.VERIF, "harness", "gotmpl", f), "rb").read())
    h.update(C.ensure_model().encode())
    return os.path.join(bd, "core-%s-%s-%s.json" % (ctx.seed, ctx.tier, h.hexdigest()[:12]))


def run_core(ctx, opts=("d",), force=False):
    """Returns dict with per-case comparison records. Cached."""
    bd = C.build_dir()
    cache = core_key(ctx, bd)
    if os.path.exists(cache) and not force and not os.environ.get("VERIF_NOCACHE"):
        data = json.load(open(cache))
        if set(opts) <= set(data["opts"]):
            return data
    ngram = 60 if ctx.tier == "quick" else 600
    nin = 14 if ctx.tier == "quick" else 30
    saved_rng = ctx.rng
    import random
    ctx.rng = random.Random(ctx.seed * 7919 + 17)
    grammars = corpus_grammars() + gen_grammars(ctx, ngram) + extra_grammars(ctx, 15 if ctx.tier == "quick" else 100)
    allopts = ["d", "i", "s", "is", "n", "ni", "ns", "nis"]
    bt = B.Batch(bd, "core", grammars, allopts)
    bt.want_vet = True
    bt.generate().build()
    model = B.Model()
    data = {"opts": allopts, "grammars": {}, "cases": [], "stats": {}}
    mlines, ireqs = [], []
    meta = {}
    for g in grammars:
        gid = g["id"]
        ginfo = {"text": None, "opts": {}}
        inputs = make_inputs(ctx, g, nin)
        ginfo["inputs"] = inputs
        for o in allopts:
            it = bt.items[(gid, o)]
            r = it["resp"]
            oi = {"generated": it["generated"], "compiles": it.get("compiles", False), "gofmt_clean": it.get("gofmt_clean"), "vet_error": it.get("vet_error"),
                  "panic": r.get("panic"), "compile_err": r.get("compile_err"), "parse_err": r.get("parse_err"),
                  "build_error": it.get("build_error")}
            if o == "d":
                ginfo["text"] = it["text"]
            if o == "n":
                ginfo["text_noast"] = it["text"]
            if it["generated"]:
                try:
                    nodes = P.parse_dump(r["linked"])
                    sexp, ptx, names, actmap = P.linked_to_model(nodes)
                    oi.update(model=sexp, ptx=ptx, names=names, actmap={str(k): v for k, v in actmap.items()},
                              flags=[list(map(str, f)) for f in P.flags_of(nodes)])
                    if "nilkey" in sexp:
                        oi["conv_err"] = "switch case with an empty class (<nil> key)"
                    else:
                        mlines.append("grammar %s/%s %d %s" % (gid, o, ptx, sexp))
                        mlines.append("gen %s/%s %d" % (gid, o, 1 if B.OPTSETS[o]["inline"] else 0))
                        mlines.append("emit %s/%s %d %d %s" % (gid, o, 0 if B.OPTSETS[o]["noast"] else 1, 1 if B.OPTSETS[o]["inline"] else 0, P.undef_bits(nodes)))
                        mlines.append("semit %s/%s %d %d %s" % (gid, o, 0 if B.OPTSETS[o]["noast"] else 1, 1 if B.OPTSETS[o]["inline"] else 0, P.undef_bits(nodes)))
                        if o == "d":
                            mlines.append("opt %s/d" % gid)
                            try:
                                mlines.append("link %s/d %s" % (gid, P.raw_to_model(P.parse_dump(r["raw"]))))
                                oi["link_want"] = "ptx=%s acts=%s %s" % (ptx if ptx < len(names) else "-",
                                                                          ",".join(str(actmap[k]) for k in sorted(actmap)), sexp)
                            except (P.ConvError, KeyError):
                                pass
                except P.ConvError as e:
                    oi["conv_err"] = str(e)
            ginfo["opts"][o] = oi
        data["grammars"][gid] = ginfo
        for o in allopts:
            oi = ginfo["opts"][o]
            if not (oi["compiles"] and "model" in oi and "conv_err" not in oi):
                continue
            os_ = B.OPTSETS[o]
            ast = not os_["noast"]
            key = (gid, o)
            nuser = len(g["rules"])
            for k, inp in enumerate(inputs):
                runes = B.runes_of(inp)
                rs = ",".join(map(str, runes))
                for memo in ((True, False) if (ast and o == "d") else (True,)):
                    cid = "%s/%s/i%d/m%d" % (gid, o, k, 1 if memo else 0)
                    ireqs.append((cid, key, -1, memo, -1, "uint32", [inp]))
                    mlines.append("run %s/%s %s %d %d %d 0 %d %s" % (gid, o, cid, 1 if ast else 0, 1 if memo else 0,
                                                                 1 if os_["inline"] else 0, FUEL, rs))
                    meta[cid] = dict(g=gid, o=o, kind="fresh", memo=memo, inputs=[inp], entry=0)
                if o == "d":
                    mlines.append("spec %s/%s %s/%s/i%d/spec 0 %d %s" % (gid, o, gid, o, k, FUEL, rs))
                    # other entry rules (C01): every user rule on a few inputs
                    if k < 4:
                        for er in range(1, nuser):
                            cid = "%s/%s/i%d/e%d" % (gid, o, k, er)
                            ireqs.append((cid, key, er + 1, True, -1, "uint32", [inp]))
                            mlines.append("run %s/%s %s 1 1 0 %d %d %s" % (gid, o, cid, er, FUEL, rs))
                            mlines.append("spec %s/%s %s/spec %d %d %s" % (gid, o, cid, er, FUEL, rs))
                            meta[cid] = dict(g=gid, o=o, kind="entry", memo=True, inputs=[inp], entry=er)
            if o == "d":
                # histories (C12): the whole input list on one instance, several sizes / widths
                for hv, (size, width) in enumerate([(-1, "uint32"), (0, "uint16"), (1, "uint64"), (1 << 15, "uint"), (-1, "uint8")]):
                    cid = "%s/%s/h%d" % (gid, o, hv)
                    seq = inputs if hv % 2 == 0 else list(reversed(inputs))
                    if hv >= 2:      # repeated identical inputs, back to back
                        seq = [x for i_ in seq for x in (i_, i_)]
                    # C12 speaks of inputs that fit U (runes and the end symbol): longer pinned inputs stay out of the narrow histories
                    lim = {"uint8": 255, "uint16": 65535}.get(width)
                    if lim:
                        seq = [x for x in seq if len(B.runes_of(x)) < lim]
                    ireqs.append((cid, key, -1, True, size, width, seq))
                    mlines.append("run %s/%s %s 1 1 0 0 %d %s" % (gid, o, cid, FUEL, ";".join(",".join(map(str, B.runes_of(i))) for i in seq)))
                    meta[cid] = dict(g=gid, o=o, kind="history", memo=True, inputs=seq, entry=0, size=size, width=width)
                # every printer of the syntax tree on the same history (C05): entry -3
                cid = "%s/%s/hp" % (gid, o)
                ireqs.append((cid, key, -3, True, -1, "uint32", inputs))
                meta[cid] = dict(g=gid, o=o, kind="history-printers", memo=True, inputs=inputs, entry=0, size=-1, width="uint32")
                # the same history with DisableMemoize (C06: memoisation is invisible on a reused parser too)
                cid = "%s/%s/hn" % (gid, o)
                ireqs.append((cid, key, -1, False, -1, "uint32", inputs))
                mlines.append("run %s/%s %s 1 0 0 0 %d %s" % (gid, o, cid, FUEL, ";".join(",".join(map(str, B.runes_of(i))) for i in inputs)))
                meta[cid] = dict(g=gid, o=o, kind="history-nomemo", memo=False, inputs=inputs, entry=0, size=-1, width="uint32")
    ires = bt.run_impl(ireqs)
    mres, merrs = model.run(mlines)
    data["model_errors"] = merrs[:20]
    for cid, m in meta.items():
        rec = dict(m)
        rec["cid"] = cid
        rec["impl"] = ires.get(cid)
        rec["model"] = mres.get(("run", cid))
        sp = mres.get(("spec", cid + "/spec")) if m["kind"] == "entry" else None
        if m["kind"] == "fresh":
            base = cid.rsplit("/", 1)[0]
            sp = mres.get(("spec", "%s/%s/%s/spec" % (m["g"], "d", base.split("/")[2])))
        rec["spec"] = sp
        data["cases"].append(rec)
    for gid, gi in data["grammars"].items():
        for o, oi in gi["opts"].items():
            if "model" in oi:
                oi["gen"] = mres.get(("gen", "%s/%s" % (gid, o)))
                oi["emit"] = mres.get(("emit", "%s/%s/%d%d" % (gid, o, 0 if B.OPTSETS[o]["noast"] else 1, 1 if B.OPTSETS[o]["inline"] else 0)))
                sm = mres.get(("semit", "%s/%s/%d%d" % (gid, o, 0 if B.OPTSETS[o]["noast"] else 1, 1 if B.OPTSETS[o]["inline"] else 0)))
                if sm is not None and sm.startswith("deep="):
                    oi["deep"], oi["semit"] = sm[5] in "1357", sm[7:]
                    oi["alt2"], oi["closed"] = sm[5] in "2367", sm[5] in "4567"
                if o == "d":
                    oi["opt"] = mres.get(("opt", "%s/d" % gid))
                    oi["link"] = mres.get(("link", "%s/d" % gid))
                if oi.get("compiles"):
                    oi["nils"] = bt.nils((gid, o))
                # call sites in the emitted code: with or without the failure branch (CheckAlwaysSucceeds)
                try:
                    src = open(os.path.join(bt.dir, "pkgs", bt.items[(gid, o)]["pkg"], "parser.go"), encoding="utf-8", errors="replace").read()
                    sk = emitskel.skeletons(src)
                    oi["skel"] = ";".join(sk) if sk is not None else None
                    sts = emitskel.statements(src)
                    oi["stmts"] = ";".join(sts) if sts is not None else None
                    calls = {}
                    for m_ in re.finditer(r"^\s*(if !)?_rules\[rule(\w+)\]\(\)( \{)?\s*$", src, re.M):
                        calls.setdefault(m_.group(2), set()).add("if" if m_.group(1) else "bare")
                    oi["calls"] = {k: sorted(v) for k, v in calls.items()}
                except OSError:
                    pass
    bt.cleanup()
    ctx.rng = saved_rng
    with open(cache, "w") as f:
        json.dump(data, f)
    return data


# ---------------------------------------------------------------- comparison
def split_obs(s):
    return [B.parse_obs(x) for x in s.split(" | ")] if isinstance(s, str) else [B.parse_obs(x) for x in (s or [])]


def compare_step(rec, k, im, mo, ginfo):
    """Compare one history step; returns list of (aspect, detail)."""
    diffs = []
    oi = ginfo["opts"][rec["o"]]
    names = oi["names"]
    actmap = oi.get("actmap", {})
    inp = rec["inputs"][k]
    runes = B.runes_of(inp)
    ast = not B.OPTSETS[rec["o"]]["noast"]
    if im.get("st") != mo.get("st"):
        diffs.append(("verdict", "impl st=%s model st=%s%s" % (im.get("st"), mo.get("st"),
                                                              (" panic=" + bytes.fromhex(im["panic"]).decode(errors="replace")) if "panic" in im else "")))
        return diffs
    if im.get("st") == "0":
        if ast:
            if im.get("pos") != mo.get("pos"):
                diffs.append(("pos", "impl %s model %s" % (im.get("pos"), mo.get("pos"))))
            if im.get("toks", "") != mo.get("toks", ""):
                diffs.append(("tokens", "impl %s model %s" % (im.get("toks"), mo.get("toks"))))
            if "badtoken" in im:
                diffs.append(("badtoken", im["badtoken"]))
            # trace: impl K:b:e:hex(text) ; model N:b:e
            itr = [x for x in im.get("trace", "").split(",") if x]
            mtr = [x for x in mo.get("trace", "").split(",") if x]
            exp = []
            for x in mtr:
                n_, b_, e_ = x.split(":")
                txt = "".join(chr(c) for c in runes[int(b_):int(e_)]).encode("utf-8", errors="surrogatepass").hex()
                exp.append("%s:%s:%s:%s" % (actmap.get(n_, "?"), b_, e_, txt))
            if itr != exp:
                diffs.append(("trace", "impl %s model %s" % (itr, exp)))
            # AST walk
            if im.get("walk", "") != mo.get("tree", ""):
                diffs.append(("ast", "impl %s model %s" % (im.get("walk"), mo.get("tree"))))
            # printed tree
            lines = bytes.fromhex(im.get("tree", "")).decode("utf-8", errors="replace").split("\n")
            lines = [l for l in lines if l]
            mt = [x for x in mo.get("tree", "").split(",") if x]
            if len(lines) != len(mt):
                diffs.append(("print", "impl prints %d lines, model %d" % (len(lines), len(mt))))
            else:
                for l, x in zip(lines, mt):
                    d_, r_, b_, e_ = map(int, x.split(":"))
                    q = goquote(runes[b_:e_])
                    if q is None:
                        continue
                    if l != " " * d_ + names[r_] + " " + q:
                        diffs.append(("print", "impl line %r, expected %r" % (l, " " * d_ + names[r_] + " " + q)))
                        break
        else:
            ial = [x for x in im.get("alog", "").split(",") if x]
            mal = [x for x in mo.get("alog", "").split(",") if x]
            exp = []
            for x in mal:
                k_, b_, e_ = x.split(":")
                txt = "".join(chr(c) for c in runes[int(b_):int(e_)]).encode("utf-8", errors="surrogatepass").hex()
                exp.append("%s:%s" % (actmap.get(k_, "?"), txt))
            if ial != exp:
                diffs.append(("alog", "impl %s model %s" % (ial, exp)))
    elif im.get("st") == "1":
        if im.get("max") == "-1:0:0":
            im["max"] = "0:0:0"
        if im.get("max") != mo.get("max"):
            diffs.append(("errtoken", "impl %s model %s" % (im.get("max"), mo.get("max"))))
        else:
            msg = bytes.fromhex(im.get("msg", "")).decode("utf-8", errors="replace")
            m = MSG_RE.match(msg)
            if msg.startswith("PANIC") or not m:
                diffs.append(("errmsg", "Error() = %r" % msg[:200]))
            else:
                me = mo.get("err", "-")
                if me == "-":
                    diffs.append(("errmsg", "model has no error fields"))
                else:
                    r_, l1, c1, l2, c2, txt = me.split(":")
                    txt_r = [int(x) for x in txt.split(".") if x]
                    got = (m.group(1), m.group(2), m.group(3), m.group(4), m.group(5))
                    want = (names[int(r_)] if int(r_) < len(names) else "?", l1, c1, l2, c2)
                    if int(r_) == 0 and mo.get("max") == "0:0:0":
                        want = ("Unknown",) + want[1:]
                    if mo.get("max") != "0:0:0" or True:
                        # rule index in maxtok is model index; impl prints rul3s[pegRule]; zero token prints "Unknown"
                        pass
                    if got[1:] != want[1:]:
                        diffs.append(("errpos", "impl %s model %s" % (got, want)))
                    try:
                        if gounquote(m.group(6)) != txt_r:
                            diffs.append(("errtext", "impl quotes %r model %r" % (m.group(6), txt_r)))
                    except Exception:
                        diffs.append(("errtext", "cannot unquote %r" % m.group(6)))
    return diffs


def compare_case(rec, ginfo):
    if rec["impl"] is None:
        return [("missing", "no implementation result")]
    if rec["model"] is None:
        return [("missing", "no model result")]
    ims = [B.parse_obs(x) for x in rec["impl"]]
    mos = split_obs(rec["model"])
    out = []
    if len(ims) != len(mos):
        if any(i.get("st") == "3" for i in ims):
            return [("timeout", "implementation timed out")]
        return [("missing", "impl %d steps, model %d" % (len(ims), len(mos)))]
    for k, (im, mo) in enumerate(zip(ims, mos)):
        if mo.get("st") == "3":
            out.append(("fuel", "model out of fuel at step %d (impl st=%s)" % (k, im.get("st"))))
            break
        if im.get("st") == "3":
            out.append(("timeout", "implementation timed out at step %d" % k))
            break
        for a, d in compare_step(rec, k, im, mo, ginfo):
            out.append((a, "step %d: %s" % (k, d)))
    return out


def compare_spec(rec):
    """model machine vs reference semantics (both sides are the extracted model)"""
    sp = rec.get("spec")
    if not sp or rec["kind"].startswith("history"):
        return []
    mo = split_obs(rec["model"])[0] if rec["model"] else {}
    s = B.parse_obs(sp)
    if s.get("res") == "N" or mo.get("st") == "3":
        return []
    out = []
    if s.get("res") == "S":
        if mo.get("st") != "0":
            out.append(("spec-verdict", "spec succeeds, machine st=%s" % mo.get("st")))
        elif B.OPTSETS[rec["o"]]["noast"]:
            pass
        else:
            if s.get("pos") != mo.get("pos"):
                out.append(("spec-pos", "spec %s machine %s" % (s.get("pos"), mo.get("pos"))))
            if s.get("toks", "") != mo.get("toks", ""):
                out.append(("spec-tokens", "spec %s machine %s" % (s.get("toks"), mo.get("toks"))))
            if s.get("trace", "") != mo.get("trace", ""):
                out.append(("spec-trace", "spec %s machine %s" % (s.get("trace"), mo.get("trace"))))
    else:
        if mo.get("st") != "1":
            out.append(("spec-verdict", "spec fails, machine st=%s" % mo.get("st")))
        elif s.get("ff") != mo.get("max") and rec["o"] in ("d", "i"):
            out.append(("spec-errtoken", "spec %s machine %s" % (s.get("ff"), mo.get("max"))))
    return out


def compare_decisions(gi, o):
    """generator decisions visible in the emitted code vs. the model's: nil rule slots (inlined / unused /
    undefined rules) and call sites emitted without a failure branch (CheckAlwaysSucceeds)"""
    oi = gi["opts"][o]
    out = []
    gen = B.parse_obs(oi.get("gen") or "")
    if not gen or "names" not in oi:
        return out
    names = oi["names"]
    inline, asu, reached = gen.get("inline", ""), gen.get("asu", ""), gen.get("reached", "")
    rules = P.parse_sexp(oi["model"])[1:]
    if oi.get("nils") is not None and len(oi["nils"]) == len(names):
        want = "".join("1" if (rules[i][0] == "N" or inline[i] == "1" or reached[i] == "0") else "0" for i in range(len(names)))
        if want != oi["nils"]:
            out.append(("gen-nil-slots", "nil slots: implementation %s, model %s (rules %s)" % (oi["nils"], want, names)))
    for nm, forms in (oi.get("calls") or {}).items():
        if nm not in names:
            continue
        i = names.index(nm)
        want = ["bare"] if asu[i] == "1" else ["if"]
        if forms != want:
            out.append(("gen-always-succeeds", "call sites of %s are emitted as %s, model decides %s" % (nm, forms, want)))
    return out


def compare_optimizer(gi):
    """the model's -switch pass applied to the default tree must give the tree the implementation built under -switch"""
    d, s_ = gi["opts"].get("d", {}), gi["opts"].get("s", {})
    if not d.get("opt") or "model" not in s_:
        return []
    stable, _, sexp = d["opt"].partition(" ")
    if sexp != s_["model"]:
        # first differing rule
        a, b = P.parse_sexp(sexp)[1:], P.parse_sexp(s_["model"])[1:]
        k = next((i for i, (x, y) in enumerate(zip(a, b)) if x != y), -1)
        return [("optimizer-tree", "the tree built under -switch differs from the model's rewrite of the default tree at rule %s" % (d["names"][k] if 0 <= k < len(d.get("names", [])) else k))]
    return []
