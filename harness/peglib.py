"""Grammar ASTs, the .peg printer, random grammar / input generators, tree-dump parsing and the
conversion of the implementation's (linked) tree dump into the model's grammar syntax."""
import re

# ---------------------------------------------------------------- python-side grammar AST
# ('dot',) ('chr',cp) ('str',[cp..]) ('istr',[cp..]) ('cls',neg,insens,[('c',cp)|('r',lo,hi)])
# ('name',rule) ('pred',k) ('state',k) ('act',k) ('seq',[..]) ('alt',[..]) ('and',e) ('not',e)
# ('q',e) ('star',e) ('plus',e) ('push',e) ('nil',)
PREDS = ["true", "false", "position%2 == 0", "buffer[position] != 'b'"]


def esc_char(cp, in_class=False, quote="'"):
    tbl = {7: "\\a", 8: "\\b", 27: "\\e", 12: "\\f", 10: "\\n", 13: "\\r", 9: "\\t", 11: "\\v",
           39: "\\'", 34: '\\"', 91: "\\[", 93: "\\]", 45: "\\-", 92: "\\\\"}
    if cp in tbl:
        return tbl[cp]
    if cp < 32 or cp == 127:
        return "\\%03o" % cp
    if cp > 126:
        if 0xD800 <= cp <= 0xDFFF or cp > 0x10FFFF:
            return "\\0x%X" % cp
        return chr(cp)
    return chr(cp)


HAS_PUSH = [True]


def has_push(e):
    if e[0] == "push":
        return True
    for x in e[1:]:
        if isinstance(x, tuple) and has_push(x):
            return True
        if isinstance(x, list) and any(isinstance(y, tuple) and has_push(y) for y in x):
            return True
    return False


def action_text(k, noast):
    if noast and not HAS_PUSH[0]:
        return ' p.T = append(p.T, fmt.Sprintf("%%d:", %d)) ' % k
    if noast:
        return ' p.T = append(p.T, fmt.Sprintf("%%d:%%x", %d, text)) ' % k
    return ' p.T = append(p.T, fmt.Sprintf("%%d:%%d:%%d:%%x", %d, begin, end, text)) ' % k


def prec(e):
    t = e[0]
    if t == "alt":
        return 0
    if t == "seq":
        return 1
    if t in ("and", "not", "pred", "state"):
        return 2
    if t in ("q", "star", "plus"):
        return 3
    return 4


def pp(e, noast=False, ctx=0):
    t = e[0]
    if t == "dot":
        s = "."
    elif t == "chr":
        s = "'" + esc_char(e[1]) + "'"
    elif t == "str":
        s = "'" + "".join(esc_char(c) for c in e[1]) + "'"
    elif t == "istr":
        s = '"' + "".join(esc_char(c) for c in e[1]) + '"'
    elif t == "cls":
        _, neg, insens, items = e
        body = "".join(esc_char(i[1], True) if i[0] == "c" else esc_char(i[1], True) + "-" + esc_char(i[2], True) for i in items)
        s = ("[[" if insens else "[") + ("^" if neg else "") + body + ("]]" if insens else "]")
    elif t == "name":
        s = e[1]
    elif t == "pred":
        s = "&{ " + PREDS[e[1]] + " }"
    elif t == "state":
        s = "!{ p.N++ }"
    elif t == "act":
        s = "{" + action_text(e[1], noast) + "}"
    elif t == "nil":
        s = ""
    elif t == "seq":
        s = " ".join(pp(x, noast, 2) for x in e[1])
    elif t == "alt":
        parts = [pp(x, noast, 1 if x[0] == "alt" else 0) for x in e[1]]
        s = " / ".join(parts)
    elif t == "and":
        inner = pp(e[1], noast, 3)
        s = "&" + ("(" + inner + ")" if inner.startswith("{") else inner)      # "&{" would start a predicate
    elif t == "not":
        inner = pp(e[1], noast, 3)
        s = "!" + ("(" + inner + ")" if inner.startswith("{") else inner)
    elif t == "q":
        s = pp(e[1], noast, 4) + "?"
    elif t == "star":
        s = pp(e[1], noast, 4) + "*"
    elif t == "plus":
        s = pp(e[1], noast, 4) + "+"
    elif t == "push":
        s = "<" + pp(e[1], noast, 0) + ">"
    else:
        raise ValueError(t)
    if prec(e) < ctx or (t == "nil" and ctx > 0):
        return "(" + s + ")"
    return s


def grammar_text(rules, noast=False, header=""):
    """rules: list of (name, expr)."""
    out = [header + "package parser\n\ntype Parser Peg {\n T []string\n N int\n}\n"]
    HAS_PUSH[0] = any(has_push(e) for _, e in rules)
    for name, e in rules:
        out.append("%s <- %s\n" % (name, pp(e, noast, 0)))
    return "\n".join(out)


# ---------------------------------------------------------------- random grammars (mostly well-formed)
ALPHA = [97, 98, 99, 100]          # a b c d
EXTRA = [10, 0xE9, 0x1F600, 0x10FFFF, 0]        # newline, 2-byte, 4-byte, the maximum code point, NUL
# what a Go string can hold besides ordinary text: the boundary code points, the replacement character, and
# (as lone surrogates, which encode to invalid UTF-8 and reach the parser as U+FFFD runes) undecodable bytes
HOSTILE = [10, 0xE9, 0x1F600, 0x10FFFF, 0x10FFFE, 0, 0xFFFD, 0xD800, 0xDFFF, 0xFFFF, 0x10000]


class GGen:
    def __init__(self, rng, nrules=None, style="mixed"):
        self.rng = rng
        self.style = style
        self.nrules = nrules or rng.randint(1, 5)
        self.names = ["R%d" % i for i in range(self.nrules)]
        self.nact = 0
        self.haspush = False

    def term(self):
        r = self.rng
        c = r.random()
        al = ALPHA + ([r.choice(EXTRA)] if r.random() < 0.15 else [])
        if c < 0.45:
            return ("chr", r.choice(al))
        if c < 0.55:
            return ("str", [r.choice(ALPHA) for _ in range(r.randint(2, 3))])
        if c < 0.62:
            return ("istr", [r.choice(ALPHA) for _ in range(r.randint(1, 2))])
        if c < 0.80:
            lo = r.choice(ALPHA)
            hi = r.choice([x for x in ALPHA if x >= lo])
            items = [("r", lo, hi)] if r.random() < 0.6 else [("c", r.choice(al)), ("c", r.choice(al))]
            if r.random() < 0.06:
                items = [("r", r.choice([0x80, 0x10000, 0x10FFFE]), 0x10FFFF)]       # up to the maximum code point
            if r.random() < 0.3:
                items.append(("c", r.choice(al)))
            return ("cls", r.random() < 0.2, r.random() < 0.1, items)
        return ("dot",)

    def consuming(self, depth, rank):
        """an expression that cannot succeed without consuming (by construction)"""
        r = self.rng
        c = r.random()
        if depth <= 0 or c < 0.35:
            return self.term()
        if c < 0.55:
            n = r.randint(2, 3)
            k = r.randrange(n)
            return ("seq", [self.consuming(depth - 1, rank) if i == k else self.any(depth - 1, rank, i == 0) for i in range(n)])
        if c < 0.75:
            return ("alt", [self.consuming(depth - 1, rank) for _ in range(r.randint(2, 4))])
        if c < 0.82:
            return ("plus", self.consuming(depth - 1, rank))
        if c < 0.90:
            return ("push", self.consuming(depth - 1, rank))
        if rank > 0 and c < 0.97:
            # a lower-ranked rule; ranks make head recursion impossible; whether it consumes is checked by wf filter
            return ("seq", [self.term(), ("name", self.names[r.randrange(self.nrules)])])
        return self.term()

    def any(self, depth, rank, head):
        """any expression; `head`: in head position (may only reference lower-ranked rules)"""
        r = self.rng
        c = r.random()
        if depth <= 0:
            c = c * 0.5
        if c < 0.22:
            return self.term()
        if c < 0.30:
            if head:
                if rank > 0:
                    return ("name", self.names[r.randrange(rank)])
                return self.term()
            return ("name", self.names[r.randrange(self.nrules)])
        if c < 0.36:
            self.nact += 1
            return ("act", self.nact - 1)
        if c < 0.40:
            return ("pred", r.choice([0, 0, 2, 3, 3, 1]))
        if c < 0.42:
            return ("state", 0)
        if c < 0.435:
            # a repetition / option whose body is a capture and a separator, no rule reference: an abandoned
            # iteration has completed its capture; the action that follows must not see it
            self.haspush = True
            self.nact += 1
            return ("seq", [(r.choice(["star", "q", "plus"]), ("seq", [("push", self.term()), self.term()])), ("act", self.nact - 1)])
        if c < 0.45:
            # a capture, then one that may complete on the empty string, read by the action that follows
            self.haspush = True
            self.nact += 1
            return ("seq", [("push", self.term()), ("push", (r.choice(["star", "q"]), self.term())), ("act", self.nact - 1)])
        if c < 0.50:
            return ("seq", [self.any(depth - 1, rank, head and i == 0) for i in range(r.randint(2, 3))])
        if c < 0.62:
            alts = [self.any(depth - 1, rank, head) for _ in range(r.randint(2, 4))]
            if r.random() < 0.15:
                alts.append(("nil",))
            return ("alt", alts)
        if c < 0.68:
            return ("and", self.any(depth - 1, rank, head))
        if c < 0.75:
            return ("not", self.any(depth - 1, rank, head))
        if c < 0.82:
            return ("q", self.any(depth - 1, rank, head))
        if c < 0.89:
            return ("star", self.consuming(depth - 1, rank if head else self.nrules))
        if c < 0.93:
            return ("plus", self.consuming(depth - 1, rank if head else self.nrules))
        self.haspush = True
        return ("push", self.any(depth - 1, rank, head))

    def grammar(self):
        rules = []
        for i, nm in enumerate(self.names):
            d = self.rng.randint(1, 3)
            body = self.any(d, i, True)
            if i == 0 and self.rng.random() < 0.5:
                body = ("seq", [body, ("not", ("dot",))])
            rules.append((nm, body))
        # make every rule reachable: first rule references all the others somewhere harmless (after the body, optional)
        used = set()

        def walk(e):
            if e[0] == "name":
                used.add(e[1])
            for x in e[1:]:
                if isinstance(x, tuple):
                    walk(x)
                elif isinstance(x, list):
                    for y in x:
                        if isinstance(y, tuple):
                            walk(y)
        # reachability closure from R0
        reach, todo = {"R0"}, ["R0"]
        bodies = dict(rules)
        while todo:
            used.clear()
            walk(bodies[todo.pop()])
            for u in list(used):
                if u not in reach:
                    reach.add(u)
                    todo.append(u)
        missing = [n for n in self.names if n not in reach]
        if missing:
            tail = [("q", ("seq", [("chr", 0x7A), ("name", m)])) for m in missing]   # 'z' Rk   (guarded)
            nm, body = rules[0]
            rules[0] = (nm, ("seq", [body] + tail))
        return rules


class GGenBT:
    """backtracking-heavy grammars: alternatives that share rule-reference prefixes, so that rules are
    re-entered at the same offset (memo replay), and tokens / captures / actions are produced inside
    branches that are later abandoned or inside lookahead"""

    def __init__(self, rng):
        self.rng = rng
        self.nact = 0

    def act(self):
        self.nact += 1
        return ("act", self.nact - 1)

    def grammar(self):
        r = self.rng
        nt = r.randint(2, 4)
        nm = r.randint(1, 4)
        toks, mids = [], []
        letters = list(ALPHA)
        r.shuffle(letters)
        letters = letters[:r.choice([1, 2, 2, 3])]      # few letters: different token rules match the same text
        nullable = set()
        for i in range(nt):
            c = letters[i % len(letters)]
            body = ("chr", c) if r.random() < 0.6 else (("cls", False, False, [("r", c, min(c + 1, 100))]) if r.random() < 0.6 else ("dot",))
            if i > 0 and r.random() < 0.25:
                # a rule that can match the empty string (re-entered at the same offset it leaves a zero-width token)
                body = (r.choice(["star", "q"]), ("chr", c))
                nullable.add("T%d" % i)
            if r.random() < 0.4:
                body = ("push", body)
            if r.random() < 0.4:
                body = ("seq", [body, self.act()])
            toks.append(("T%d" % i, body))
        for j in range(nm):
            pool = [("name", n) for n, _ in toks] + [("name", n) for n, _ in mids]
            k = r.randint(1, 3)
            items = [r.choice(pool) for _ in range(k)]
            if r.random() < 0.3:
                items[-1] = ("q", items[-1])
            if r.random() < 0.3:
                items.append(self.act())
            if all(x[0] == "q" or (x[0] == "name" and x[1] in nullable) or x[0] == "act" for x in items):
                nullable.add("M%d" % j)
            body = ("seq", items) if len(items) > 1 else items[0]
            if r.random() < 0.3:
                # a repetition / option over "captured item, separator" with no rule reference in its body, then an
                # action: the capture of an abandoned iteration must be gone when the action runs
                c = r.choice(letters)
                item = ("push", ("plus", ("chr", c))) if r.random() < 0.5 else ("push", ("chr", c))
                op = r.choice(["star", "q", "plus"])
                body = ("seq", [(op, ("seq", [item, ("chr", r.choice([0x3A, 0x2C]))])), self.act()])
                if op == "plus":
                    nullable.discard("M%d" % j)
                else:
                    nullable.add("M%d" % j)
            if r.random() < 0.25:
                body = ("push", body)
            if body[0] in ("q", "act"):
                first = r.choice(pool)
                body = ("seq", [first, body])
                if first[1] not in nullable:
                    nullable.discard("M%d" % j)
            if r.random() < 0.35:
                # a choice whose alternatives share their first reference: X Y / X  or  X 'c' / X
                x = r.choice(pool)
                second = r.choice(pool) if r.random() < 0.5 else ("chr", r.choice(ALPHA))
                body = ("alt", [("seq", [x, second]), x if r.random() < 0.7 else ("seq", [x, self.act()])])
                if x[1] in nullable:
                    nullable.add("M%d" % j)
                else:
                    nullable.discard("M%d" % j)
            mids.append(("M%d" % j, body))
        pool = [("name", n) for n, _ in mids] + [("name", n) for n, _ in toks]
        alts = []
        for _ in range(r.randint(2, 4)):
            pre = [r.choice(pool) for _ in range(r.randint(1, 2))]
            if alts and r.random() < 0.45:
                pre = list(r.choice(alts)[1][:-1])          # same prefix as an earlier alternative, other tail
                pre = [x for x in pre if x[0] in ("name", "chr")]
                if not pre or pre[0][0] != "name":
                    pre = [r.choice(pool)] + pre
            if len(pre) >= 1 and r.random() < 0.35:
                # a bare literal inside the prefix: what follows starts beyond the end of every token recorded so far
                pre.insert(r.randint(1, len(pre)), ("chr", r.choice([0x3A, 0x2C])))
            if r.random() < 0.35:
                # lookahead over a sequence whose prefix succeeds (leaving rule, capture and action tokens
                # behind) before its last element decides: nothing of it may survive the lookahead
                inner = [r.choice(pool)]
                if r.random() < 0.4:
                    inner[0] = ("push", inner[0])
                if r.random() < 0.6:
                    inner.append(self.act())
                inner.append(("chr", r.choice(ALPHA + [0x7A])))
                pre.insert(0, (r.choice(["and", "not"]), ("seq", inner)))
            tail = ("chr", r.choice([0x78, 0x79, 0x7A]))
            alts.append(("seq", pre + [tail]))
        if r.random() < 0.5:
            solid = [x for x in pool if x[1] not in nullable]
            if solid:
                alts.append(r.choice(solid))
        top = ("alt", alts)
        if r.random() < 0.5:
            top = ("plus", top)
        rules = [("R0", ("seq", [top, ("not", ("dot",))]))] + mids + toks
        # reachability: reference unreached rules in a guarded optional tail
        names = [n for n, _ in rules]
        bodies = dict(rules)
        reach, todo = {"R0"}, ["R0"]

        def walk(e, acc):
            if e[0] == "name":
                acc.add(e[1])
            for x in e[1:]:
                if isinstance(x, tuple):
                    walk(x, acc)
                elif isinstance(x, list):
                    for y in x:
                        if isinstance(y, tuple):
                            walk(y, acc)
        while todo:
            acc = set()
            walk(bodies[todo.pop()], acc)
            for u in acc:
                if u not in reach:
                    reach.add(u)
                    todo.append(u)
        missing = [n for n in names if n not in reach]
        if missing:
            tail = [("q", ("seq", [("chr", 0x77), ("name", m)])) for m in missing]
            rules[0] = ("R0", ("seq", [("seq", [top] + tail), ("not", ("dot",))]))
        return rules


class GGenSW:
    """switch-shaped grammars: choices with three or more alternatives that all consume, whose first
    characters are mostly distinct (single characters, ranges, classes, literals, rule references,
    captures, nested choices), with some overlapping alternatives so that part of the choice stays ordered"""
    LETTERS = [97, 98, 99, 100, 101, 102, 103, 104]

    def __init__(self, rng):
        self.rng = rng
        self.nact = 0
        self.nrules = rng.randint(2, 5)
        self.names = ["R%d" % i for i in range(self.nrules)]
        self.nullable = set()
        self.cur = None

    def head(self, rank):
        r = self.rng
        c = r.random()
        L = self.LETTERS
        if c < 0.35:
            return ("chr", r.choice(L))
        if c < 0.5:
            lo = r.choice(L[:-1])
            return ("cls", False, False, [("r", lo, min(lo + r.randint(1, 3), 104))])
        if c < 0.6:
            return ("cls", False, r.random() < 0.3, [("c", r.choice(L)), ("c", r.choice(L))])
        if c < 0.7:
            return ("str", [r.choice(L) for _ in range(2)])
        if c < 0.75:
            return ("istr", [r.choice(L)])
        if c < 0.9 and rank > 0:
            cand = [n for n in self.names[:rank] if n not in self.nullable]
            if cand:
                return ("name", r.choice(cand))
        if c < 0.95:
            return ("push", ("chr", r.choice(L)))
        return ("dot",) if r.random() < 0.3 else ("plus", ("chr", r.choice(L)))

    def mixed(self):
        """a choice some of whose alternatives consume nothing but can fail (& ! predicate), not in last position"""
        r = self.rng
        L = self.LETTERS
        alts = [("chr", r.choice(L))]
        for _ in range(r.randint(1, 2)):
            k = r.random()
            if k < 0.4:
                alts.append(("and", ("cls", False, False, [("r", r.choice(L[:4]), r.choice(L[4:]))])))
            elif k < 0.7:
                alts.append(("not", ("chr", r.choice(L))))
            else:
                alts.append(("pred", r.choice([2, 3])))
        alts.append(("chr", r.choice(L)) if r.random() < 0.8 else ("cls", False, False, [("r", 97, 99)]))
        r.shuffle(alts)
        return ("alt", alts)

    def tail(self, rank):
        r = self.rng
        c = r.random()
        if c < 0.3:
            return []
        if c < 0.5:
            return [("chr", r.choice(self.LETTERS))]
        if c < 0.6:
            self.nact += 1
            return [("act", self.nact - 1)]
        if c < 0.75:
            return [("q", ("chr", r.choice(self.LETTERS))), ("name", self.names[r.randrange(self.nrules)])] if r.random() < 0.4 else [("star", ("chr", r.choice(self.LETTERS)))]
        if c < 0.85:
            return [(r.choice(["and", "not"]), ("chr", r.choice(self.LETTERS)))]
        return [("name", self.names[r.randrange(self.nrules)])] if r.random() < 0.5 else [("chr", r.choice(self.LETTERS)), ("chr", r.choice(self.LETTERS))]

    def choice(self, rank, depth):
        r = self.rng
        alts = []
        for _ in range(r.randint(3, 6)):
            h = self.head(rank)
            if depth > 0 and r.random() < 0.15:
                h = self.choice(rank, depth - 1)
            if h[0] in ("chr", "cls", "str") and r.random() < 0.2:
                h = ("seq", [h, ("push", ("plus", ("cls", False, False, [("r", 48, 57)])))])     # 'i' <[0-9]+>
            items = [h] + self.tail(rank)
            if r.random() < 0.12:
                # possibly-empty choice in head position, followed by something that consumes
                items = [self.mixed(), ("cls", False, False, [("r", 48, 57)])] + self.tail(rank)
            if r.random() < 0.1:
                items = [("act", self._act())] + items if False else items
            alts.append(("seq", items) if len(items) > 1 else h)
        if r.random() < 0.12 and depth == 1:
            alts.append(("nil",))
            self.nullable.add(self.cur)
        return ("alt", alts)

    def _act(self):
        self.nact += 1
        return self.nact - 1

    def clean_choice(self, rank):
        """three to five alternatives with pairwise distinct first letters (the whole choice becomes a
        switch), most of which record a token (capture, rule reference, action) after the first letter"""
        r = self.rng
        letters = r.sample(self.LETTERS, r.randint(3, 5))
        alts = []
        for c in letters:
            k = r.random()
            items = [("chr", c)]
            if k < 0.4:
                items.append(("push", ("plus", ("cls", False, False, [("r", 48, 57)]))))
            elif k < 0.6 and rank > 0:
                cand = [n for n in self.names[:rank] if n not in self.nullable]
                if cand:
                    items.append(("name", r.choice(cand)))
            elif k < 0.75:
                items.append(("act", self._act()))
            elif k < 0.85:
                items = [("push", ("chr", c))]
            alts.append(("seq", items) if len(items) > 1 else items[0])
        return ("alt", alts)

    def chain(self):
        """rules whose first-character sets depend on each other through a long chain: R(i) begins with
        R(i-1) and reaches R(i+1) after a consumed character, so the analysis needs as many rounds as the
        chain is long; the last rule's choice overlaps the first characters inherited from the start of the chain"""
        r = self.rng
        k = r.randint(3, 5)
        L = self.LETTERS
        names = ["R%d" % i for i in range(k + 1)]
        c0 = r.sample(L, 2)
        rules = [("R0", ("alt", [("seq", [("chr", c0[0]), ("q", ("name", "R1"))]), ("chr", c0[1])]))]
        for i in range(1, k):
            x, y, z = r.choice(L), r.choice(L), r.choice(L)
            alts = [("seq", [("name", names[i - 1]), ("chr", x)]), ("seq", [("chr", y), ("q", ("name", names[i + 1]))])]
            if r.random() < 0.5:
                alts.append(("chr", z))
            rules.append((names[i], ("alt", alts)))
        last = [("seq", [("name", names[k - 1]), ("chr", r.choice(L))]), ("seq", [("chr", r.choice(c0)), ("chr", 0x71)]), ("chr", r.choice(L))]
        if r.random() < 0.5:
            last.append(("seq", [("chr", r.choice(L)), ("chr", 0x72)]))
        rules.append((names[k], ("alt", last)))
        top = ("seq", [("star", ("seq", [("name", "R0"), ("chr", 0x76)]))] +
               [("q", ("seq", [("chr", 0x77), ("name", n)])) for n in names[1:]] + [("not", ("dot",))])
        return [("S", top)] + rules

    def grammar(self):
        r = self.rng
        if r.random() < 0.2:
            return self.chain()
        rules = []
        for i, nm in enumerate(self.names):
            self.cur = nm
            body = self.choice(i, 1)
            w = r.random()
            if 0.3 <= w < 0.55 and nm not in self.nullable and r.random() < 0.6:
                body = self.clean_choice(i)
            if w < 0.2 and nm not in self.nullable:
                body = ("plus", body)
            elif w < 0.3:
                body = ("seq", [("push", body), ("act", self._act())])
            elif w < 0.55 and nm not in self.nullable:
                # the choice sits directly inside a repetition, an option or a lookahead, followed by a
                # separator that decides: tokens recorded by a case must disappear when the operand is abandoned
                inner = ("seq", [body, ("chr", r.choice([0x3B, 0x2C]))])
                k = r.random()
                if k < 0.4:
                    body = ("star", inner)
                    self.nullable.add(nm)
                elif k < 0.6:
                    body = ("seq", [("q", inner), ("star", ("chr", r.choice(self.LETTERS)))])
                    self.nullable.add(nm)
                elif k < 0.8:
                    body = ("seq", [("not", inner), body])
                else:
                    body = ("seq", [("and", inner), body])
            rules.append((nm, body))
        nm, body = rules[-1]
        refs = [("q", ("seq", [("chr", 0x77), ("name", n)])) for n in self.names[:-1]]
        top = ("seq", [("star", ("seq", [("name", self.names[-1]), ("chr", 0x76)]))] + refs + [("not", ("dot",))])
        return [("S", top)] + rules


class GGenIN:
    """inline-shaped grammars: rules referenced exactly once (so that -inline compiles them at their call
    site, without the rule wrapper's save/restore), used as bare alternatives of ordered choices, as
    operands of ? * + & !, and chained; their bodies consume several characters before they can fail"""

    def __init__(self, rng):
        self.rng = rng
        self.nact = 0

    def act(self):
        self.nact += 1
        return ("act", self.nact - 1)

    def leaf_body(self):
        r = self.rng
        n = r.randint(2, 3)
        items = [("chr", r.choice(ALPHA[:3])) for _ in range(n)]
        if r.random() < 0.3:
            items[r.randrange(n)] = ("cls", False, False, [("r", 97, 98)])
        if r.random() < 0.35:
            k = r.randrange(n)
            items[k] = ("push", items[k])
        if r.random() < 0.35:
            items.insert(r.randint(1, n), self.act())
        return ("seq", items)

    def grammar(self):
        r = self.rng
        nleaf = r.randint(3, 6)
        leaves = [("L%d" % i, self.leaf_body()) for i in range(nleaf)]
        free = [n for n, _ in leaves]
        r.shuffle(free)
        mids = []

        def take():
            return ("name", free.pop()) if free else ("chr", r.choice(ALPHA))
        for j in range(r.randint(1, 3)):
            if not free:
                break
            c = r.random()
            if c < 0.55:
                alts = [take() for _ in range(r.randint(2, 3))]
                if r.random() < 0.4:
                    alts.append(("seq", [("chr", r.choice(ALPHA[:3])), ("chr", r.choice(ALPHA))]))
                body = ("alt", alts)
            elif c < 0.75:
                body = ("seq", [(r.choice(["q", "star", "and", "not"]), take()), ("plus", ("cls", False, False, [("r", 97, 100)]))])
            else:
                body = ("seq", [take(), ("q", take())])
            mids.append(("M%d" % j, body))
        tops = [("name", n) for n, _ in mids] + [("name", n) for n in free]
        r.shuffle(tops)
        top = ("alt", tops + [("plus", ("cls", False, False, [("r", 97, 100)]))]) if len(tops) > 1 else ("alt", tops + [("chr", 0x7A)])
        rules = [("R0", ("seq", [top, ("star", ("cls", False, False, [("r", 97, 100)])), ("not", ("dot",))]))] + mids + leaves
        return rules


def sample_from(rng, rules, e, depth=0):
    """a rune list the expression might match (ignores lookahead and predicates)"""
    t = e[0]
    bodies = dict(rules)
    if depth > 12:
        return []
    if t == "dot":
        return [rng.choice(ALPHA + [0x78, 0x79, 0x7A, 10, 0xE9])]
    if t == "chr":
        return [e[1]]
    if t == "str":
        return list(e[1])
    if t == "istr":
        return [c if rng.random() < 0.5 else (c ^ 0x20) for c in e[1]]
    if t == "cls":
        _, neg, insens, items = e
        if neg:
            cand = [c for c in ALPHA + [0x78, 0x79, 0x7A] if not any((i[0] == "c" and i[1] == c) or (i[0] == "r" and i[1] <= c <= i[2]) for i in items)]
            return [rng.choice(cand)] if cand else [0x7A]
        i = rng.choice(items)
        return [i[1]] if i[0] == "c" else [rng.randint(i[1], i[2])]
    if t == "name":
        return sample_from(rng, rules, bodies[e[1]], depth + 1) if e[1] in bodies else []
    if t in ("pred", "state", "act", "nil", "and", "not"):
        return []
    if t == "seq":
        out = []
        for x in e[1]:
            out += sample_from(rng, rules, x, depth + 1)
        return out
    if t == "alt":
        return sample_from(rng, rules, rng.choice(e[1]), depth + 1)
    if t == "q":
        return sample_from(rng, rules, e[1], depth + 1) if rng.random() < 0.6 else []
    if t in ("star", "plus"):
        out = []
        for _ in range(rng.randint(0 if t == "star" else 1, 3)):
            out += sample_from(rng, rules, e[1], depth + 1)
        return out
    if t == "push":
        return sample_from(rng, rules, e[1], depth + 1)
    return []


def grammar_inputs(rng, rules, n):
    """inputs for a grammar: sampled derivations (mostly accepted), single edits of them (mostly
    rejected late), and a few uniformly random strings"""
    outs = [""]
    pool = ALPHA + [0x78, 0x79, 0x7A, 0x77]
    while len(outs) < n:
        c = rng.random()
        s = sample_from(rng, rules, rules[0][1])[:24]
        if c < 0.45:
            pass
        elif c < 0.8 and s:
            k = rng.randrange(len(s))
            m = rng.random()
            if m < 0.4:
                s = s[:k] + s[k + 1:]
            elif m < 0.7:
                s = s[:k] + [rng.choice(pool)] + s[k + 1:]
            else:
                s = s[:k] + [rng.choice(pool + HOSTILE)] + s[k:]
        else:
            s = [rng.choice(pool + (HOSTILE if rng.random() < 0.3 else [])) for _ in range(rng.randint(1, 5))]
        outs.append("".join(chr(x) for x in s))
    return outs


def sample_inputs(rng, n=20):
    """short strings over the small alphabet (plus a few specials)"""
    outs = [""]
    for _ in range(n):
        ln = rng.choice([0, 1, 1, 2, 2, 3, 3, 4, 5, 6, 8])
        al = ALPHA + ([rng.choice(EXTRA + [0x7A, 65, 66])] if rng.random() < 0.3 else [])
        outs.append("".join(chr(rng.choice(al)) for _ in range(ln)))
    return outs


# ---------------------------------------------------------------- dump parsing
def parse_sexp(s):
    pos = 0
    n = len(s)
    stack = [[]]
    tok = re.compile(r"\s*([()]|[^\s()]+)")
    while pos < n:
        m = tok.match(s, pos)
        if not m:
            break
        pos = m.end()
        t = m.group(1)
        if t == "(":
            stack.append([])
        elif t == ")":
            x = stack.pop()
            stack[-1].append(x)
        else:
            stack[-1].append(t)
    return stack[0][0]


def unhex(x):
    return bytes.fromhex(x[1:]).decode("utf-8", errors="replace")


T_RULE, T_NAME, T_DOT, T_CHAR, T_RANGE, T_PRED, T_STATE, T_ACTION = 1, 2, 3, 4, 5, 7, 8, 10
T_ALT, T_UALT, T_SEQ, T_AND, T_NOT, T_Q, T_STAR, T_PLUS, T_PUSH, T_IPUSH, T_NIL = 16, 17, 18, 19, 20, 21, 22, 23, 25, 26, 27


class Node:
    __slots__ = ("t", "s", "id", "pd", "mk", "kids", "ref")

    def __init__(self, sx):
        if sx[0] == "ref":
            self.t, self.s, self.id, self.pd, self.mk, self.kids, self.ref = -1, unhex(sx[1]), int(sx[2]), False, False, [], True
            return
        if sx[0] in ("null", "deep"):
            self.t, self.s, self.id, self.pd, self.mk, self.kids, self.ref = -2, sx[0], 0, False, False, [], False
            return
        self.t, self.s, self.id = int(sx[0]), unhex(sx[1]), int(sx[2])
        rest = sx[3:]
        self.pd = "pd" in rest
        self.mk = "mk" in rest
        self.kids = [Node(x) for x in rest if isinstance(x, list)]
        self.ref = False


def parse_dump(s):
    sx = parse_sexp(s)
    assert sx[0] == "tree"
    return [Node(x) for x in sx[1:]]


class ConvError(Exception):
    pass


def pred_index(text):
    t = text.strip()
    if t in PREDS:
        return PREDS.index(t)
    raise ConvError("unknown predicate text %r" % text)


def act_index(text):
    m = re.search(r'Sprintf\("[^"]*", (\d+)[,)]', text)
    if not m:
        raise ConvError("unknown action text %r" % text)
    return int(m.group(1))


def conv_expr(n, idx, raw=False):
    t = n.t
    if t == T_DOT:
        return "(dot)"
    if t == T_CHAR:
        if len(n.s) != 1:
            raise ConvError("character node with %d runes" % len(n.s))
        return "(c %d)" % ord(n.s)
    if t == T_RANGE:
        a, b = n.kids[0], n.kids[1]
        return "(r %d %d)" % (ord(a.s), ord(b.s))
    if t == T_NAME:
        if n.s not in idx:
            raise ConvError("name %s has no rule" % n.s)
        return "(n %d)" % idx[n.s]
    if t == T_PRED:
        return "(p %d)" % pred_index(n.s)
    if t == T_STATE:
        return "(s 0)"
    if t == T_ACTION:
        return "(a %d)" % act_index(n.s)
    if t == T_NIL:
        return "(nil)"
    if t in (T_ALT, T_SEQ):
        return "(%s %s)" % ("alt" if t == T_ALT else "seq", " ".join(conv_expr(k, idx, raw) for k in n.kids))
    one = {T_AND: "and", T_NOT: "not", T_Q: "q", T_STAR: "star", T_PLUS: "plus"}
    if t in one:
        return "(%s %s)" % (one[t], conv_expr(n.kids[0], idx, raw))
    if t == T_PUSH:
        return "(push %s)" % conv_expr(n.kids[0], idx, raw)
    if t == T_UALT:
        cases = []
        for c in n.kids:
            if c.t != T_SEQ or len(c.kids) != 2 or c.kids[0].t != T_AND:
                raise ConvError("unexpected shape under UnorderedAlternate")
            cls = c.kids[0].kids[0]
            keys = []
            for ch in cls.kids:
                if ch.t == T_CHAR:
                    keys.append(str(ord(ch.s)))
                elif ch.t == T_NIL:
                    keys.append("nilkey")
                else:
                    raise ConvError("non-character in switch class")
            cases.append((keys, conv_expr(c.kids[1], idx, raw)))
        parts = ["(case (%s) %s)" % (" ".join(k), e) for k, e in cases[:-1]]
        parts.append("(default %s)" % cases[-1][1])
        return "(sw %s)" % " ".join(parts)
    raise ConvError("node type %d not convertible" % t)


def raw_to_model(nodes):
    """Raw (pre-Compile) tree dump -> "(rg (def i expr) ...)" for Model/Link.v: rule i is the i-th definition,
    a name without definition gets an id beyond the rules, in order of first occurrence"""
    rules = [n for n in nodes if n.t == T_RULE]
    idx = {}
    for i, r in enumerate(rules):
        idx.setdefault(r.s, i)
    if len(idx) != len(rules):
        raise ConvError("duplicate definitions")

    def scan(n):
        if n.t == T_NAME and n.s not in idx:
            idx[n.s] = len(idx)
        for k in n.kids:
            scan(k)
    for r in rules:
        for k in r.kids:
            scan(k)
    defs = []
    for i, r in enumerate(rules):
        if not r.kids:
            raise ConvError("rule without body")
        defs.append("(def %d %s)" % (i, conv_expr(r.kids[0], idx, raw=True)))
    return "(rg %s)" % " ".join(defs)


def linked_to_model(nodes):
    """Linked (post-Compile) tree dump -> (model grammar sexp, ptx, names, action map N->K)."""
    rules = [n for n in nodes if n.t == T_RULE]
    idx = {}
    for i, r in enumerate(rules):
        idx.setdefault(r.s, i)
    out, actmap = [], {}
    for r in rules:
        b = r.kids[0] if r.kids else None
        if b is None or b.t == T_NIL:
            out.append("(N)")
        elif b.t == T_IPUSH:
            c = b.kids[0]
            if c.t == T_ACTION:
                out.append("(A %d)" % c.id)
                try:
                    actmap[c.id] = act_index(c.s)
                except ConvError:
                    actmap[c.id] = -1
            elif c.t == T_NIL and c.s == "<undefined>":
                out.append("(N)")
            else:
                out.append("(B %s)" % conv_expr(c, idx))
        else:
            raise ConvError("rule %s: body is node type %d" % (r.s, b.t))
    ptx = idx.get("PegText", len(rules))
    return "(g %s)" % " ".join(out), ptx, [r.s for r in rules], actmap


def undef_bits(nodes):
    """one character per rule slot: 1 when the slot was created for a name that has no definition"""
    return "".join("1" if (r.kids and r.kids[0].t == T_IPUSH and r.kids[0].kids and r.kids[0].kids[0].t == T_NIL
                           and r.kids[0].kids[0].s == "<undefined>") else "0" for r in nodes if r.t == T_RULE)


def flags_of(nodes):
    """list of (path, type, pd, mk) for nodes with a skip-check flag set (for the -switch tie)"""
    res = []

    def walk(n, path):
        if n.pd or n.mk:
            res.append((path, n.t, n.pd, n.mk))
        for i, k in enumerate(n.kids):
            walk(k, path + (i,))
    for i, n in enumerate(nodes):
        if n.t == T_RULE:
            walk(n, (i,))
    return res


# ---------------------------------------------------------------- python AST -> model expression (elaboration)
def elab(e, nameid):
    """the tree the front end builds for a python-side expression, in the model's syntax (names by id)"""
    t = e[0]
    if t == "dot":
        return "(dot)"
    if t == "chr":
        return "(c %d)" % e[1]
    if t == "str":
        return "(c %d)" % e[1][0] if len(e[1]) == 1 else "(seq %s)" % " ".join("(c %d)" % c for c in e[1])
    if t == "istr":
        def one(c):
            ch = chr(c)
            if ch.isascii() and ch.isalpha():
                return "(alt (c %d) (c %d))" % (ord(ch.lower()), ord(ch.upper()))
            return "(c %d)" % c
        return one(e[1][0]) if len(e[1]) == 1 else "(seq %s)" % " ".join(one(c) for c in e[1])
    if t == "cls":
        _, neg, insens, items = e
        parts = []
        for i in items:
            if i[0] == "c":
                ch = chr(i[1])
                if insens and ch.isascii() and ch.isalpha():
                    parts.append("(alt (c %d) (c %d))" % (ord(ch.lower()), ord(ch.upper())))
                else:
                    parts.append("(c %d)" % i[1])
            else:
                if insens:
                    lo, hi = chr(i[1]), chr(i[2])
                    parts.append("(alt (r %d %d) (r %d %d))" % (ord(lo.lower()), ord(hi.lower()), ord(lo.upper()), ord(hi.upper())))
                else:
                    parts.append("(r %d %d)" % (i[1], i[2]))
        body = parts[0] if len(parts) == 1 else "(alt %s)" % " ".join(parts)
        return "(seq (not %s) (dot))" % body if neg else body
    if t == "name":
        return "(n %d)" % nameid(e[1])
    if t == "pred":
        return "(p %d)" % e[1]
    if t == "state":
        return "(s 0)"
    if t == "act":
        return "(a %d)" % e[1]
    if t == "nil":
        return "(nil)"
    if t in ("seq", "alt"):
        return "(%s %s)" % (t, " ".join(elab(x, nameid) for x in e[1]))
    return "(%s %s)" % (t, elab(e[1], nameid))


def raw_model(rules):
    ids = {}

    def nameid(n):
        if n not in ids:
            ids[n] = len(ids)
        return ids[n]
    for n, _ in rules:
        nameid(n)
    defs = " ".join("(def %d %s)" % (nameid(n), elab(e, nameid)) for n, e in rules)
    return "(rg %s)" % defs, ids


# ---------------------------------------------------------------- model grammar (sexp) -> Gallina term
def sexp_to_coq(sx):
    """sx: parsed model grammar sexp (list form from parse_sexp) -> Coq term of type grammar"""
    def e(x):
        h = x[0]
        if h == "dot":
            return "EDot"
        if h == "c":
            return "(EChar %s)" % x[1]
        if h == "r":
            return "(ERange %s %s)" % (x[1], x[2])
        if h == "n":
            return "(EName %s%%nat)" % x[1]
        if h == "p":
            return "(EPred %s%%nat)" % x[1]
        if h == "s":
            return "(EState %s%%nat)" % x[1]
        if h == "a":
            return "(EAct %s%%nat)" % x[1]
        if h == "nil":
            return "ENil"
        if h in ("seq", "alt"):
            return "(%s [%s])" % ("ESeq" if h == "seq" else "EAlt", "; ".join(e(y) for y in x[1:]))
        one = {"and": "EAnd", "not": "ENot", "q": "EQuery", "star": "EStar", "plus": "EPlus", "push": "EPush"}
        if h in one:
            return "(%s %s)" % (one[h], e(x[1]))
        if h == "sw":
            cases = ["([%s], %s)" % ("; ".join(k for k in y[1]), e(y[2])) for y in x[1:] if y[0] == "case"]
            d = [e(y[1]) for y in x[1:] if y[0] == "default"][0]
            return "(ESwitch [%s] %s)" % ("; ".join(cases), d)
        raise ValueError(h)
    rules = []
    for r in sx[1:]:
        if r[0] == "B":
            rules.append("RBody %s" % e(r[1]))
        elif r[0] == "A":
            rules.append("RAct %s%%nat" % r[1])
        else:
            rules.append("RNil")
    return "[ " + ";\n  ".join(rules) + " ]"


class GGenX:
    """corner shapes that the other generators rarely or never produce (each came up as the shape a seeded change needed):
    a choice that partitions the whole code space; tokens that begin or end with a line break; rules that re-enter each
    other through non-left positions in chains; lookahead as a whole alternative that is not the last; unary chains of
    rules spanning the same text with later siblings."""
    def __init__(self, rng):
        self.rng = rng
        self.nact = 0

    def _act(self):
        self.nact += 1
        return ("act", self.nact - 1)

    def partition(self):
        r = self.rng
        k = r.randint(3, 5)
        # all parts but the last stay below 4096 code points: the last becomes the default clause, the others case lists
        # (Model/Optimize.v does not model case lists of more than 4096 constants)
        cuts = sorted(set(r.sample([0x20, 0x30, 0x41, 0x61, 0x7B, 0x7F, 0x80, 0xFF, 0x3FF, 0x7FF, 0x800, 0xBFF], k - 1)))
        bounds = [0] + [c + 1 for c in cuts] + [0x110000]
        alts = []
        for i in range(len(bounds) - 1):
            cls = ("cls", False, False, [("r", bounds[i], bounds[i + 1] - 1)])
            w = r.random()
            alts.append(("push", cls) if w < 0.2 else (("seq", [cls, self._act()]) if w < 0.35 else cls))
        r.shuffle(alts)
        body = ("alt", alts)
        top = r.choice([("seq", [("star", ("name", "P")), ("not", ("dot",))]),
                        ("seq", [("name", "P"), ("q", ("name", "P")), ("not", ("dot",))]),
                        ("seq", [("plus", ("seq", [("name", "P"), ("q", ("chr", 0x2C))])), ("not", ("dot",))])])
        return [("S", top), ("P", body)]

    def newlines(self):
        r = self.rng
        cls = ("cls", False, False, [("r", 97, 100)])
        nl = ("chr", 10)
        item = r.choice([("seq", [nl, ("plus", cls)]), ("seq", [("plus", cls), nl]), ("seq", [nl, nl, cls]), ("push", ("seq", [nl, cls]))])
        other = r.choice([("plus", cls), ("seq", [cls, ("q", nl)]), ("push", ("plus", cls))])
        alts = [item, other]
        r.shuffle(alts)
        return [("S", ("seq", [("star", ("name", "L")), ("not", ("dot",))])), ("L", ("alt", alts))]

    def chain(self):
        r = self.rng
        k = r.randint(4, 7)
        L = [0x75, 0x63, 0x64, 0x65, 0x66, 0x67, 0x68]
        names = ["K%d" % i for i in range(k)]
        rules = [(names[0], ("seq", [("chr", 0x78), ("q", ("name", names[1]))]))]
        for i in range(1, k - 1):
            p = r.randrange(i)
            rules.append((names[i], ("seq", [("name", names[p]), ("chr", L[i % len(L)]), ("q", ("name", names[i + 1]))])))
        p = r.randrange(k - 1)
        last = [("seq", [("name", names[p]), ("chr", 0x64)]), ("seq", [("chr", 0x78), ("chr", 0x66)]), ("chr", 0x6B), ("chr", 0x6C)]
        if r.random() < 0.5:
            r.shuffle(last)
        rules.append((names[k - 1], ("alt", last)))
        return [("S", ("seq", [("name", names[0]), ("not", ("dot",))]))] + rules

    def lookalts(self):
        r = self.rng
        cls = ("cls", False, False, [("r", 97, 100)])
        a, b, c = (("chr", x) for x in r.sample([97, 98, 99, 100], 3))
        alts = [(r.choice(["and", "not"]), ("seq", [a, b])), ("seq", [a, c]), ("not", c)]
        if r.random() < 0.5:
            alts.insert(0, ("not", ("dot",)))
        return [("S", ("seq", [("plus", ("name", "A")), ("name", "E"), ("not", ("dot",))])),
                ("A", ("seq", [("alt", alts), cls])),
                ("E", ("alt", [("not", ("dot",)), ("chr", 10)]))]

    def sameSpan(self):
        r = self.rng
        depth = r.randint(2, 4)
        names = ["U%d" % i for i in range(depth)]
        rules = []
        for i in range(depth - 1):
            rules.append((names[i], ("name", names[i + 1])))
        rules.append((names[-1], ("push", ("plus", ("cls", False, False, [("r", 48, 57)])))))
        op = ("chr", r.choice([0x2B, 0x2A]))
        top = ("seq", [("name", names[0]), ("star", ("seq", [("name", "O"), ("name", names[0])])), ("not", ("dot",))])
        return [("S", top), ("O", op)] + rules

    def grammar(self):
        # (partition is not in the rotation: under -switch the generator expands every alternative's first set into one
        #  node per code point, 17 MB of tree per option set; corpus grammar c10 is the one instance of that shape)
        return self.rng.choice([self.newlines, self.chain, self.lookalts, self.sameSpan])()
