"""Shared machinery for the peg verification checks: builds, Coq obligations, evidence, findings."""
import fcntl
import hashlib
import json
import os
import random
import re
import shutil
import signal
import subprocess
import sys
import time

VERIF = os.path.dirname(os.path.dirname(os.path.abspath(__file__)))
REPO = os.environ.get("VERIF_REPO", "/repo")
BUILD = os.path.join(VERIF, "build")
COQ = os.path.join(VERIF, "coq")
GOENV = dict(os.environ, GOFLAGS="-mod=mod", GOPROXY="off", CGO_ENABLED=os.environ.get("CGO_ENABLED", "1"))
GOENV["GORACE"] = "atexit_sleep_ms=0"
GOENV.pop("GOTOOLCHAIN", None)
GOENV.pop("GOSUMDB", None)

TRUSTED_BASE = [
    "Coq 8.16.1 kernel (coqc); vm_compute used, native_compute not used",
    "no Axiom/Parameter/Admitted in /verif/coq (grep-checked on every run); Print Assumptions output recorded below",
    "extraction: ExtrOcamlBasic only (Extract Inductive bool/option/unit/list/prod/sumbool/sumor, Extract Inlined Constant for their projections); nat/positive/N/Z stay Coq datatypes; OCaml 4.13.1 compiler; ocaml/driver.ml (and, for the reader stream of C10, ExtractReader.v + ocaml/rddriver.ml)",
    "hand-written Gallina model tied to /repo by the correspondence run described in coverage (differential execution of the extracted model and the implementation built from /repo's working tree)",
    "harness/emitskel.py: line readers that turn the gofmt'ed rule functions of a generated file into the token notation of Model/Emit.v (skeleton) and Model/SEmit.v (every statement named)",
    "Model/Exec.v: what Go does for each statement form of a rule function (goto / break / return / switch control flow, the runtime calls) is stated there by hand",
    "Go toolchain used to build the implementation side",
]


def log(*a):
    print(*a, file=sys.stderr, flush=True)


def run(cmd, timeout=600, cwd=None, env=None, input=None, check=False):
    """Run a command under a timeout; returns (rc, stdout, stderr); rc=124 on timeout."""
    # own session, so that a timeout kills the whole process group (go build leaves its compilers behind otherwise)
    p = subprocess.Popen(cmd, cwd=cwd, env=env, stdin=subprocess.PIPE if input is not None else None,
                         stdout=subprocess.PIPE, stderr=subprocess.PIPE, text=True, errors="replace",
                         start_new_session=True)
    try:
        out, err = p.communicate(input=input, timeout=timeout)
    except subprocess.TimeoutExpired:
        try:
            os.killpg(p.pid, signal.SIGKILL)
        except OSError:
            pass
        out, err = p.communicate()
        if check:
            raise RuntimeError("command timed out: %s" % (cmd,))
        return 124, out or "", err or ""
    if check and p.returncode != 0:
        raise RuntimeError("command failed: %s\n%s\n%s" % (cmd, out[-4000:], err[-4000:]))
    return p.returncode, out, err


def repo_hash():
    """Content hash of /repo's working tree (tracked + untracked, not ignored)."""
    rc, out, _ = run(["git", "-C", REPO, "ls-files", "-co", "--exclude-standard"], timeout=60)
    h = hashlib.sha256()
    for f in sorted(set(out.split("\n"))):
        if not f:
            continue
        p = os.path.join(REPO, f)
        h.update(f.encode())
        try:
            with open(p, "rb") as fh:
                h.update(fh.read())
        except OSError:
            h.update(b"<missing>")
    return h.hexdigest()[:16]


class Lock:
    def __init__(self, name):
        os.makedirs(BUILD, exist_ok=True)
        self.path = os.path.join(BUILD, name + ".lock")

    def __enter__(self):
        self.fh = open(self.path, "w")
        fcntl.flock(self.fh, fcntl.LOCK_EX)
        return self

    def __exit__(self, *a):
        fcntl.flock(self.fh, fcntl.LOCK_UN)
        self.fh.close()


def ensure_disk(min_free_gb=40):
    """The Go build cache grows with every tree the checks compile (some 2 GB per working tree: 500 generated packages).
    When the disk runs low it is emptied: the next build is slower, nothing else changes."""
    try:
        free = shutil.disk_usage(BUILD if os.path.isdir(BUILD) else VERIF).free
        if free < min_free_gb * (1 << 30):
            log("disk space low (%.1f GB free): emptying the Go build cache" % (free / (1 << 30)))
            run(["go", "clean", "-cache"], env=GOENV, timeout=900)
    except OSError:
        pass


def build_dir():
    """Per-working-tree build directory; only the two most recent are kept."""
    ensure_disk()
    h = repo_hash()
    d = os.path.join(BUILD, "t-" + h)
    if not os.path.isdir(d):
        os.makedirs(d, exist_ok=True)
        olds = sorted([x for x in os.listdir(BUILD) if x.startswith("t-") and x != "t-" + h],
                      key=lambda x: os.path.getmtime(os.path.join(BUILD, x)))
        for x in olds[:-1]:
            shutil.rmtree(os.path.join(BUILD, x), ignore_errors=True)
    os.utime(d)
    return d


# ---------------------------------------------------------------- Coq side

def coq_make(timeout=1500, target=None):
    """(Incremental) .vo build: the whole development, or one file with everything it depends on.
    A check builds only its own property file, so that facts regenerated for another property
    (Generated/*.v) cannot make it fail."""
    with Lock("coq"):
        if not os.path.exists(os.path.join(COQ, "Makefile")):
            run(["coq_makefile", "-f", "_CoqProject", "-o", "Makefile"], cwd=COQ, check=True)
        rc, out, err = run(["make", "-j16"] + ([target] if target else []), cwd=COQ, timeout=timeout)
        return rc == 0, out + err


def coq_make_model(timeout=1500):
    """Build only what extraction needs (Spec, Model, Generated): the model must stay runnable when a proof breaks."""
    with Lock("coq"):
        if not os.path.exists(os.path.join(COQ, "Makefile")):
            run(["coq_makefile", "-f", "_CoqProject", "-o", "Makefile"], cwd=COQ, check=True)
        targets = []
        for sub in ("Spec", "Model", "Generated"):
            d = os.path.join(COQ, "theories", sub)
            for f in sorted(os.listdir(d)):
                if f.endswith(".v"):
                    targets.append("theories/%s/%so" % (sub, f))
        rc, out, err = run(["make", "-j16"] + targets, cwd=COQ, timeout=timeout)
        return rc == 0, out + err


def forbidden_scan():
    """No Axiom / Parameter / Admitted / admit / guard switches anywhere in the development."""
    bad = []
    pat = re.compile(r"\b(Admitted|admit|Axiom|Axioms|Parameter|Parameters|Conjecture|Hypothesis|Variable|Variables|"
                     r"Unset Guard Checking|bypass_check|Unset Positivity|Unset Universe Checking|type-in-type)\b")
    for root, _, files in os.walk(os.path.join(COQ, "theories")):
        for f in files:
            if not f.endswith(".v"):
                continue
            p = os.path.join(root, f)
            depth = 0
            for n, line in enumerate(open(p, encoding="utf-8"), 1):
                code = re.sub(r"\(\*.*?\*\)", "", line)
                if re.match(r"\s*Section\b", code):
                    depth += 1
                if re.match(r"\s*End\b", code) and depth > 0:
                    depth -= 1
                m = pat.search(code)
                if m:
                    w = m.group(1)
                    if w in ("Variable", "Variables", "Hypothesis") and depth > 0:
                        continue
                    bad.append("%s:%d: %s" % (os.path.relpath(p, VERIF), n, line.strip()))
    return bad


def check_properties_file(pid, timeout=900):
    """Re-run coqc on Properties/<pid>.v and collect, per theorem, its Print Assumptions verdict.
    Returns dict(theorems=[{name, closed, axioms}], ok, log)."""
    path = os.path.join(COQ, "theories", "Properties", pid + ".v")
    src = open(path, encoding="utf-8").read()
    names = re.findall(r"^\s*(?:Theorem|Corollary)\s+([A-Za-z0-9_']+)", src, re.M)
    printed = re.findall(r"^\s*Print Assumptions\s+([A-Za-z0-9_']+)\s*\.", src, re.M)
    with Lock("coq"):
        rc, out, err = run(["coqc", "-Q", "theories", "PegV", "-w", "-notation-overridden", path], cwd=COQ, timeout=timeout)
    text = out
    # Print Assumptions outputs come in order of the commands
    blocks = []
    cur = None
    for line in text.split("\n"):
        if line.startswith("Closed under the global context"):
            blocks.append(("closed", []))
            cur = None
        elif line.startswith("Axioms:"):
            cur = []
            blocks.append(("axioms", cur))
        elif cur is not None and line.strip():
            cur.append(line.strip())
    theorems = []
    for i, nm in enumerate(printed):
        if i < len(blocks):
            kind, ax = blocks[i]
            theorems.append({"name": nm, "closed": kind == "closed", "axioms": ax})
        else:
            theorems.append({"name": nm, "closed": False, "axioms": ["<no Print Assumptions output>"]})
    missing = [n for n in names if n not in printed]
    return {"ok": rc == 0 and not missing, "rc": rc, "theorems": theorems, "unprinted": missing,
            "log": (out + err)[-6000:], "stated": names}


def ensure_model(timeout=900):
    """Extract the model and build the OCaml driver; rebuilt when the Coq sources or the driver change."""
    h = hashlib.sha256()
    for root, _, files in sorted(os.walk(os.path.join(COQ, "theories"))):
        if os.path.basename(root) == "Properties":
            continue
        for f in sorted(files):
            if f.endswith(".v"):
                h.update(f.encode())
                h.update(open(os.path.join(root, f), "rb").read())
    h.update(open(os.path.join(VERIF, "ocaml", "driver.ml"), "rb").read())
    tag = h.hexdigest()[:16]
    d = os.path.join(BUILD, "model-" + tag)
    exe = os.path.join(d, "pegmodel")
    with Lock("model"):
        if os.path.exists(exe):
            return exe
        for x in os.listdir(BUILD):
            if x.startswith("model-"):
                shutil.rmtree(os.path.join(BUILD, x), ignore_errors=True)
        os.makedirs(d, exist_ok=True)
        ok, mlog = coq_make_model()
        if not ok:
            raise RuntimeError("the model part of the Coq development does not build, cannot extract it:\n" + mlog[-3000:])
        with Lock("coq"):
            run(["coqc", "-Q", os.path.join(COQ, "theories"), "PegV", os.path.join(COQ, "theories", "Extract.v")],
                cwd=d, timeout=timeout, check=True)
        shutil.copy(os.path.join(VERIF, "ocaml", "driver.ml"), d)
        run(["ocamlfind", "ocamlopt", "-O2", "-w", "-a", "pegmodel.mli", "pegmodel.ml", "driver.ml", "-o", "pegmodel"],
            cwd=d, timeout=timeout, check=True)
        return exe


def ensure_reader(timeout=900):
    """Extract the reader's executable side (ExtractReader.v: fshow, file_okb, file_nodes, frun) and build its
    driver (ocaml/rddriver.ml).  It needs Reader/Defs.vo and Reader/BridgeDefs.vo only (no proof, no generated file)."""
    h = hashlib.sha256()
    for root, _, files in sorted(os.walk(os.path.join(COQ, "theories"))):
        if os.path.basename(root) == "Properties":
            continue
        for f in sorted(files):
            if f.endswith(".v"):
                h.update(f.encode())
                h.update(open(os.path.join(root, f), "rb").read())
    h.update(open(os.path.join(VERIF, "ocaml", "rddriver.ml"), "rb").read())
    tag = h.hexdigest()[:16]
    d = os.path.join(BUILD, "reader-" + tag)
    exe = os.path.join(d, "pegreader")
    with Lock("model"):
        if os.path.exists(exe):
            return exe
        for x in os.listdir(BUILD):
            if x.startswith("reader-"):
                shutil.rmtree(os.path.join(BUILD, x), ignore_errors=True)
        os.makedirs(d, exist_ok=True)
        # definitions only (Reader/Defs.v, Reader/BridgeDefs.v): independent of the generated rule tree and of the proofs
        ok, mlog = coq_make(target="theories/Reader/BridgeDefs.vo")
        if not ok:
            raise RuntimeError("the reader's definitions do not build, cannot extract them:\n" + mlog[-3000:])
        with Lock("coq"):
            run(["coqc", "-Q", os.path.join(COQ, "theories"), "PegV", os.path.join(COQ, "theories", "ExtractReader.v")],
                cwd=d, timeout=timeout, check=True)
            for junk in ("ExtractReader.vo", "ExtractReader.glob", ".ExtractReader.aux", "ExtractReader.vok", "ExtractReader.vos"):
                try:
                    os.remove(os.path.join(COQ, "theories", junk))
                except OSError:
                    pass
        shutil.copy(os.path.join(VERIF, "ocaml", "rddriver.ml"), d)
        run(["ocamlfind", "ocamlopt", "-O2", "-w", "-a", "pegreader.mli", "pegreader.ml", "rddriver.ml", "-o", "pegreader"],
            cwd=d, timeout=timeout, check=True)
        return exe


# ---------------------------------------------------------------- Go side

def go_module(bd):
    """Scratch Go module with the harness tools, bound to the repository under test by a replace directive."""
    d = os.path.join(bd, "gosrc")
    src = os.path.join(VERIF, "harness", "go")
    if os.path.isdir(d):
        shutil.rmtree(d)
    shutil.copytree(src, d)
    with open(os.path.join(d, "go.mod"), "w") as f:
        f.write("module verifharness\n\ngo 1.25\n\nrequire github.com/pointlander/peg v0.0.0\n\n"
                "replace github.com/pointlander/peg => %s\n" % REPO)
    shutil.copy(os.path.join(REPO, "go.sum"), os.path.join(d, "go.sum"))
    return d


def go_build(bd, pkg, out, tags=None, race=False, cwd=None, timeout=600):
    cmd = ["go", "build"]
    if race:
        cmd.append("-race")
    if tags:
        cmd += ["-tags", tags]
    cmd += ["-o", out, pkg]
    return run(cmd, cwd=cwd or os.path.join(bd, "gosrc"), env=GOENV, timeout=timeout)


# ---------------------------------------------------------------- findings, evidence

def load_findings():
    p = os.path.join(VERIF, "known-findings.jsonl")
    res = []
    if os.path.exists(p):
        for line in open(p):
            line = line.strip()
            if line:
                res.append(json.loads(line))
    return res


class Ctx:
    def __init__(self, pid, tier, seed):
        self.pid, self.tier, self.seed = pid, tier, seed
        self.t0 = time.time()
        self.rng = random.Random(seed * 1000003 + sum(ord(c) for c in pid))
        self.violations = []   # (what, replay_path, found_input)
        self.known_lines = []
        self.coverage = {}
        self.assumptions = []
        self.level = "proof"
        self.nrep = 0
        self.findings = [f for f in load_findings() if f.get("property") == pid]

    def known(self, key):
        """Is this exact witness listed as a known (unfixed) finding?"""
        for f in self.findings:
            if f.get("status") == "known" and f.get("key") == key:
                return f
        return None

    def violation(self, what, replay, found=True):
        """Record a violation; replay is a JSON-serialisable description written to replays/."""
        os.makedirs(os.path.join(VERIF, "replays"), exist_ok=True)
        self.nrep += 1
        path = os.path.join(VERIF, "replays", "%s-%d-%d.json" % (self.pid, self.seed, self.nrep))
        with open(path, "w") as f:
            json.dump({"property": self.pid, "what": what, "found_failing_input": found, "replay": replay}, f, indent=1)
        self.violations.append((what, path, found))

    def finish(self):
        wall = time.time() - self.t0
        ev = {
            "property_id": self.pid, "tier": self.tier, "seed": self.seed, "level": self.level,
            "coverage": self.coverage, "assumptions": self.assumptions, "wall_s": round(wall, 2),
            "violations": len(self.violations),
        }
        os.makedirs(os.path.join(VERIF, "evidence"), exist_ok=True)
        with open(os.path.join(VERIF, "evidence", self.pid + ".json"), "w") as f:
            json.dump(ev, f, indent=1, sort_keys=True)
        for l in self.known_lines:
            print(l)
        for what, path, found in self.violations:
            print("VIOLATION property=%s replay=%s %s%s" % (self.pid, path, what.replace("\n", " ")[:300],
                                                          "" if found else " no-failing-input-found"))
        sys.stdout.flush()
        return 1 if self.violations else 0


def proof_obligations(ctx, pid=None, extra_props=()):
    """Build the development, scan for forbidden constructs, re-check the property's theorem file.
    Fills the proof part of the evidence. Returns list of broken obligations (names)."""
    pid = pid or ctx.pid
    broken = []
    bad = forbidden_scan()
    ok, mlog = coq_make(target="theories/Properties/%s.vo" % pid)
    if not ok:
        broken.append("coq build (make theories/Properties/%s.vo) failed: %s" % (pid, mlog[-1500:]))
    res = check_properties_file(pid)
    ths = res["theorems"]
    for t in ths:
        if not t["closed"]:
            ctx.assumptions.append("%s depends on: %s" % (t["name"], "; ".join(t["axioms"])))
    if not res["ok"]:
        broken.append("Properties/%s.v does not check (rc=%s): %s" % (pid, res["rc"], res["log"][-1500:]))
    for b in bad:
        broken.append("forbidden construct: " + b)
    n = len(res["stated"])
    discharged = len([t for t in ths if res["rc"] == 0]) if ok else 0
    ctx.coverage.update({
        "obligations": max(n, 1),
        "discharged": discharged if not bad else 0,
        "theorems": [t["name"] for t in ths],
        "print_assumptions": {t["name"]: ("Closed under the global context" if t["closed"] else t["axioms"]) for t in ths},
        "checker_cmd": "make -C /verif/coq -j16 theories/Properties/%s.vo (coq_makefile, full .vo build of the file and all its dependencies) && coqc -Q theories PegV theories/Properties/%s.v" % (pid, pid),
        "trusted_base": list(TRUSTED_BASE),
    })
    if ctx.tier == "thorough" and ok and not broken:
        # the independent checker re-checks the compiled property file and everything it depends on
        with Lock("coq"):
            rc, out, err = run(["coqchk", "-silent", "-o", "-Q", "theories", "PegV", "PegV.Properties.%s" % pid], cwd=COQ, timeout=3000)
        summ = (out + err)
        i = summ.find("CONTEXT SUMMARY")
        summ = re.sub(r"\s+", " ", summ[i:] if i >= 0 else summ[-600:]).strip()
        ctx.coverage["coqchk"] = {"cmd": "coqchk -silent -o -Q theories PegV PegV.Properties.%s" % pid, "rc": rc, "summary": summ[:900]}
        if rc != 0 or "Axioms: <none>" not in summ:
            if rc != 0:
                broken.append("coqchk does not accept Properties/%s.vo (rc=%s): %s" % (pid, rc, summ[-600:]))
            else:
                ctx.assumptions.append("coqchk lists axioms: " + summ[:600])
    if not ctx.assumptions:
        ctx.assumptions.append("all property theorems: Closed under the global context (no axioms)")
    return broken
