"""Reads the label / block / variable skeleton of every rule function back from a generated parser
(gofmt-formatted Go), in the notation of the model's `emit` command (Model/Emit.v):
  s statement(s)   Ln label   Jn goto   Cn conditional goto   Sn/Rn save / restore of position+tokenIndex
  Pn positionN := position   Un use of positionN   Mn memoize(rule, positionN, tokenIndexN, ..)   b break   { } block   sw case dflt end
Slots of the rule table that hold nil are reported as "nil"."""
import re

RE_FUNC = re.compile(r"^\t\tfunc\(\) bool \{$")
RE_LABEL = re.compile(r"^l(\d+):$")
RE_GOTO = re.compile(r"^goto l(\d+)$")
RE_SAVE = re.compile(r"^position(\d+), tokenIndex(\d+) := position, tokenIndex$")
RE_RESTORE = re.compile(r"^position, tokenIndex = position(\d+), tokenIndex(\d+)$")
RE_SAVEP = re.compile(r"^position(\d+) := position$")
RE_MEMO = re.compile(r"^memoize\(\d+, position(\d+), tokenIndex(\d+), (?:true|false)\)$")
RE_USEP = re.compile(r"^(?:add\(rule\w+, position(\d+)\)|begin := position(\d+))$")


def squash(toks):
    out = []
    for t in toks:
        if t == "s" and out and out[-1] == "s":
            continue
        out.append(t)
    return out


def skeletons(src):
    lines = src.split("\n")
    try:
        i = next(k for k, l in enumerate(lines) if l.strip() == "_rules = [...]func() bool{")
    except StopIteration:
        return None
    slots = []
    i += 1
    n = len(lines)
    while i < n:
        l = lines[i]
        st = l.strip()
        if l.startswith("\t}") and not l.startswith("\t\t"):
            break
        if st == "nil,":
            slots.append("nil")
            i += 1
            continue
        if st.startswith("/*"):
            while "*/" not in lines[i]:
                i += 1
            i += 1
            continue
        if RE_FUNC.match(l):
            toks, stack = [], []
            i += 1
            while i < n and lines[i] != "\t\t},":
                s = lines[i].strip()
                i += 1
                if not s:
                    continue
                m = RE_LABEL.match(s)
                if m:
                    toks.append("L" + m.group(1)); continue
                m = RE_GOTO.match(s)
                if m:
                    if stack and stack[-1] == "if":
                        toks.append("C" + m.group(1)); stack[-1] = "ifgoto"
                    else:
                        toks.append("J" + m.group(1))
                    continue
                m = RE_SAVE.match(s)
                if m and m.group(1) == m.group(2):
                    toks.append("S" + m.group(1)); continue
                m = RE_RESTORE.match(s)
                if m and m.group(1) == m.group(2):
                    toks.append("R" + m.group(1)); continue
                m = RE_SAVEP.match(s)
                if m:
                    toks.append("P" + m.group(1)); continue
                m = RE_MEMO.match(s)
                if m and m.group(1) == m.group(2):
                    toks.append("M" + m.group(1)); continue
                m = RE_USEP.match(s)
                if m:
                    toks.append("U" + (m.group(1) or m.group(2))); continue
                if s == "{":
                    stack.append("block"); toks.append("{"); continue
                if s.startswith("switch ") and s.endswith("{"):
                    stack.append("switch"); toks.append("sw"); continue
                if s.startswith("case ") and s.endswith(":"):
                    toks.append("case"); continue
                if s == "default:":
                    toks.append("dflt"); continue
                if s == "break":
                    toks.append("b"); continue
                if s.startswith("if ") and s.endswith("{"):
                    stack.append("if"); continue
                if s == "}":
                    k = stack.pop() if stack else "?"
                    if k == "block":
                        toks.append("}")
                    elif k == "switch":
                        toks.append("end")
                    elif k == "if":
                        toks.append("s")          # an if without a goto (memo check): a plain statement
                    elif k == "ifgoto":
                        pass
                    else:
                        toks.append("?}")
                    continue
                if s.endswith("{"):
                    stack.append("other"); toks.append("s"); continue      # user code with its own braces
                if stack and stack[-1] in ("if",):
                    continue                                                # body of a plain if: part of that statement
                toks.append("s")
            i += 1
            slots.append(",".join(squash(toks)))
            continue
        i += 1
    return slots[1:] if slots and slots[0] == "nil" else slots      # slot 0 is ruleUnknown
