"""Reads the label / block / variable skeleton of every rule function back from a generated parser
(gofmt-formatted Go), in the notation of the model's `emit` command (Model/Emit.v):
  s statement(s)   Ln label   Jn goto   Cn conditional goto   Sn/Rn save / restore of position+tokenIndex
  Pn positionN := position   Un use of positionN   Mn memoize(rule, positionN, tokenIndexN, ..)   b break   { } block   sw case dflt end
Slots of the rule table that hold nil are reported as "nil"."""
import re

RE_FUNC = re.compile(r"^\t\tfunc\(\) bool \{$")
RE_LABEL = re.compile(r"^l(\d+):$")
RE_GOTO = re.compile(r"^goto l(\d+)$")
RE_SAVE = re.compile(r"^position(\d+), tokenIndex(\d+) := position, tokenIndex$")
RE_RESTORE = re.compile(r"^position, tokenIndex = position(\d+), tokenIndex(\d+)$")
RE_SAVEP = re.compile(r"^position(\d+) := position$")
RE_MEMO = re.compile(r"^memoize\(\d+, position(\d+), tokenIndex(\d+), (?:true|false)\)$")
RE_USEP = re.compile(r"^(?:add\(rule\w+, position(\d+)\)|begin := position(\d+))$")


def squash(toks):
    out = []
    for t in toks:
        if t == "s" and out and out[-1] == "s":
            continue
        out.append(t)
    return out


def skeletons(src):
    lines = src.split("\n")
    try:
        i = next(k for k, l in enumerate(lines) if l.strip() == "_rules = [...]func() bool{")
    except StopIteration:
        return None
    slots = []
    i += 1
    n = len(lines)
    while i < n:
        l = lines[i]
        st = l.strip()
        if l.startswith("\t}") and not l.startswith("\t\t"):
            break
        if st == "nil,":
            slots.append("nil")
            i += 1
            continue
        if st.startswith("/*"):
            while "*/" not in lines[i]:
                i += 1
            i += 1
            continue
        if RE_FUNC.match(l):
            toks, stack = [], []
            i += 1
            while i < n and lines[i] != "\t\t},":
                s = lines[i].strip()
                i += 1
                if not s:
                    continue
                m = RE_LABEL.match(s)
                if m:
                    toks.append("L" + m.group(1)); continue
                m = RE_GOTO.match(s)
                if m:
                    if stack and stack[-1] == "if":
                        toks.append("C" + m.group(1)); stack[-1] = "ifgoto"
                    else:
                        toks.append("J" + m.group(1))
                    continue
                m = RE_SAVE.match(s)
                if m and m.group(1) == m.group(2):
                    toks.append("S" + m.group(1)); continue
                m = RE_RESTORE.match(s)
                if m and m.group(1) == m.group(2):
                    toks.append("R" + m.group(1)); continue
                m = RE_SAVEP.match(s)
                if m:
                    toks.append("P" + m.group(1)); continue
                m = RE_MEMO.match(s)
                if m and m.group(1) == m.group(2):
                    toks.append("M" + m.group(1)); continue
                m = RE_USEP.match(s)
                if m:
                    toks.append("U" + (m.group(1) or m.group(2))); continue
                if s == "{":
                    stack.append("block"); toks.append("{"); continue
                if s.startswith("switch ") and s.endswith("{"):
                    stack.append("switch"); toks.append("sw"); continue
                if s.startswith("case ") and s.endswith(":"):
                    toks.append("case"); continue
                if s == "default:":
                    toks.append("dflt"); continue
                if s == "break":
                    toks.append("b"); continue
                if s.startswith("if ") and s.endswith("{"):
                    stack.append("if"); continue
                if s == "}":
                    k = stack.pop() if stack else "?"
                    if k == "block":
                        toks.append("}")
                    elif k == "switch":
                        toks.append("end")
                    elif k == "if":
                        toks.append("s")          # an if without a goto (memo check): a plain statement
                    elif k == "ifgoto":
                        pass
                    else:
                        toks.append("?}")
                    continue
                if s.endswith("{"):
                    stack.append("other"); toks.append("s"); continue      # user code with its own braces
                if stack and stack[-1] in ("if",):
                    continue                                                # body of a plain if: part of that statement
                toks.append("s")
            i += 1
            slots.append(",".join(squash(toks)))
            continue
        i += 1
    return slots[1:] if slots and slots[0] == "nil" else slots      # slot 0 is ruleUnknown


# ---------------------------------------------------------------------------------------------------------------
# statement level: the same functions with every statement named, in the notation of the model's `semit` command
# (Model/SEmit.v):  inc  call<r>  pred  addact<r>  Cdot:l  Cc<code point>:l  Cr<lo>-<hi>:l  Ccall<r>:l  Cpred:l
#   Ln Jn Sn Rn Pn  add<r>:n  cap:n  mc<r>  M<r>:<n>:<0|1>  ret0 ret1  b { }  sw case:<k.k.k> dflt end   s (anything else)
RE_CONST = re.compile(r"^const \(\n\truleUnknown pegRule = iota\n((?:\trule\w+\n)+)\)", re.M)
RE_IF_DOT = re.compile(r"^if !matchDot\(\) \{$")
RE_IF_CHAR = re.compile(r"^if buffer\[position\] != '(.+)' \{$")
RE_IF_RANGE = re.compile(r"^if c := buffer\[position\]; c < '(.+)' \|\| c > '(.+)' \{$")
RE_IF_CALL = re.compile(r"^if !_rules\[rule(\w+)\]\(\) \{$")
RE_CALL = re.compile(r"^_rules\[rule(\w+)\]\(\)$")
RE_IF_PRED = re.compile(r"^if !predicate \{$")
RE_PRED = re.compile(r"^predicate := ")
RE_ADDACT = re.compile(r"^add\(rule(\w+), position\)$")
RE_ADDRULE = re.compile(r"^add\(rule(\w+), position(\d+)\)$")
RE_BEGIN = re.compile(r"^begin := position(\d+)$")
RE_MEMOCHECK = re.compile(r"^if memoized, ok := memoization\[memoKey(?:\[\w+\])?\{(\d+), position\}\]; ok \{$")
RE_MEMO2 = re.compile(r"^memoize\((\d+), position(\d+), tokenIndex(\d+), (true|false)\)$")
RE_CASE = re.compile(r"^case (.*):$")

_SIMPLE_ESC = {"a": 7, "b": 8, "f": 12, "n": 10, "r": 13, "t": 9, "v": 11, "\\": 92, "'": 39, '"': 34}


def rune_of(lit):
    """The code point of the inside of a Go rune literal (what strconv.Quote / escape() wrote); None if it is not one."""
    if len(lit) == 1:
        return ord(lit)
    if lit[0] != "\\" or len(lit) < 2:
        return None
    k = lit[1]
    if k in _SIMPLE_ESC and len(lit) == 2:
        return _SIMPLE_ESC[k]
    try:
        if k == "x" and len(lit) == 4:
            return int(lit[2:], 16)
        if k == "u" and len(lit) == 6:
            return int(lit[2:], 16)
        if k == "U" and len(lit) == 10:
            return int(lit[2:], 16)
        if k in "01234567" and len(lit) == 4:
            return int(lit[1:], 8)
    except ValueError:
        return None
    return None


def split_case_keys(s):
    """'a', ',', '\\''  ->  the literals' insides"""
    out, i, n = [], 0, len(s)
    while i < n:
        if s[i] in ", ":
            i += 1
            continue
        if s[i] != "'":
            return None
        j = i + 1
        while j < n and s[j] != "'":
            j += 2 if s[j] == "\\" else 1
        if j >= n:
            return None
        out.append(s[i + 1:j])
        i = j + 1
    return out


def statements(src):
    """Per rule-table slot: the statements of the function as tokens, 'nil', or None when the file has no table.
    A token '?...' marks something this reader cannot name (the comparison then fails on it)."""
    m = RE_CONST.search(src)
    if not m:
        return None
    rid = {}
    for k, l in enumerate(m.group(1).strip().split("\n")):
        rid[l.strip()[4:]] = k
    lines = src.split("\n")
    try:
        i = next(k for k, l in enumerate(lines) if l.strip() == "_rules = [...]func() bool{")
    except StopIteration:
        return None
    slots = []
    i += 1
    n = len(lines)

    memo_seen = {}

    def ru(name):
        return str(rid[name]) if name in rid else "?" + name

    def cp(lit):
        c = rune_of(lit)
        return str(c) if c is not None else "?" + lit

    while i < n:
        l = lines[i]
        st = l.strip()
        if l.startswith("\t}") and not l.startswith("\t\t"):
            break
        if st == "nil,":
            slots.append("nil")
            i += 1
            continue
        if st.startswith("/*"):
            while "*/" not in lines[i]:
                i += 1
            i += 1
            continue
        if RE_FUNC.match(l):
            toks, stack = [], []
            mids = []             # the rule numbers written in this function's memoization statements
            pend = None           # the test of an `if .. {` whose goto has not been read yet
            i += 1
            while i < n and lines[i] != "\t\t},":
                s = lines[i].strip()
                i += 1
                if not s:
                    continue
                if pend is not None:
                    # inside an if: `goto lN` then `}`; or, for the memo check, `return memoizedResult(memoized)` then `}`
                    m = RE_GOTO.match(s)
                    if m and pend[0] == "C":
                        toks.append("%s:%s" % (pend[1], m.group(1)))
                        pend = ("close",)
                        continue
                    if s == "return memoizedResult(memoized)" and pend[0] == "mc":
                        toks.append("mc@"); mids.append(pend[1])
                        pend = ("close",)
                        continue
                    if s == "}" and pend[0] == "close":
                        pend = None
                        continue
                    toks.append("?if:" + s[:40])
                    pend = None
                    continue
                m = RE_LABEL.match(s)
                if m:
                    toks.append("L" + m.group(1)); continue
                m = RE_GOTO.match(s)
                if m:
                    toks.append("J" + m.group(1)); continue
                m = RE_SAVE.match(s)
                if m and m.group(1) == m.group(2):
                    toks.append("S" + m.group(1)); continue
                m = RE_RESTORE.match(s)
                if m and m.group(1) == m.group(2):
                    toks.append("R" + m.group(1)); continue
                m = RE_SAVEP.match(s)
                if m:
                    toks.append("P" + m.group(1)); continue
                m = RE_MEMO2.match(s)
                if m and m.group(2) == m.group(3):
                    toks.append("M@:%s:%s" % (m.group(2), "1" if m.group(4) == "true" else "0")); mids.append(m.group(1)); continue
                m = RE_MEMOCHECK.match(s)
                if m:
                    pend = ("mc", m.group(1)); continue
                if s == "position++":
                    toks.append("inc"); continue
                if RE_IF_DOT.match(s):
                    pend = ("C", "Cdot"); continue
                m = RE_IF_RANGE.match(s)
                if m:
                    pend = ("C", "Cr%s-%s" % (cp(m.group(1)), cp(m.group(2)))); continue
                m = RE_IF_CHAR.match(s)
                if m:
                    pend = ("C", "Cc" + cp(m.group(1))); continue
                m = RE_IF_CALL.match(s)
                if m:
                    pend = ("C", "Ccall" + ru(m.group(1))); continue
                m = RE_CALL.match(s)
                if m:
                    toks.append("call" + ru(m.group(1))); continue
                if RE_IF_PRED.match(s):
                    pend = ("C", "Cpred"); continue
                if RE_PRED.match(s):
                    toks.append("pred"); continue
                m = RE_ADDACT.match(s)
                if m:
                    toks.append("addact" + ru(m.group(1))); continue
                m = RE_ADDRULE.match(s)
                if m:
                    toks.append("add%s:%s" % (ru(m.group(1)), m.group(2))); continue
                m = RE_BEGIN.match(s)
                if m and i + 1 < n and lines[i].strip() == "end := position" and lines[i + 1].strip() == "text = string(buffer[begin:end])":
                    toks.append("cap:" + m.group(1)); i += 2; continue
                if s == "return true":
                    toks.append("ret1"); continue
                if s == "return false":
                    toks.append("ret0"); continue
                if s == "{":
                    stack.append("block"); toks.append("{"); continue
                if s == "switch buffer[position] {":
                    stack.append("switch"); toks.append("sw"); continue
                m = RE_CASE.match(s)
                if m and stack and stack[-1] == "switch":
                    ks = split_case_keys(m.group(1))
                    toks.append("case:" + (".".join(cp(k) for k in ks) if ks is not None else "?" + m.group(1))); continue
                if s == "default:" and stack and stack[-1] == "switch":
                    toks.append("dflt"); continue
                if s == "break":
                    toks.append("b"); continue
                if s == "}":
                    k = stack.pop() if stack else "?"
                    toks.append({"block": "}", "switch": "end", "other": "s"}.get(k, "?}"))
                    continue
                if s.endswith("{"):
                    stack.append("other"); toks.append("s"); continue      # user code with its own braces
                toks.append("s")
            i += 1
            # the memoization key: the generator numbers the user's rules from 0 and the rules it adds itself from
            # their constant; what matters (and what the model's key, the rule, stands for) is one number per function,
            # different from every other function's
            k = len(slots) - 1
            if len(set(mids)) > 1:
                me = "?memo-ids-%s" % "-".join(mids)
            elif mids and mids[0] in memo_seen:
                me = "?memo-id-%s-also-in-slot-%d" % (mids[0], memo_seen[mids[0]])
            else:
                me = str(k)
                if mids:
                    memo_seen[mids[0]] = k
            slots.append(",".join(squash(toks)).replace("@", me))
            continue
        i += 1
    return slots[1:] if slots and slots[0] == "nil" else slots      # slot 0 is ruleUnknown
