"""C18: the CLI exits zero only after writing a complete parser."""
import itertools
import os
import shutil
import tempfile

from .. import common as C
from .. import batch as B

GRAMMARS = {
    "ok": "package p\ntype T Peg {}\nG <- 'a' B !.\nB <- [b-c]* { _ = text }\n",
    "warn": "package p\ntype T Peg {}\nG <- 'a' !.\nUnused <- 'u'\n",
    "syntax": "package p\ntype T Peg {}\nG <- ( 'a'\n",
    "badgo": "package p\ntype T Peg {}\nG <- 'a' { ) } !.\n",
}


def regen_facts(bd):
    exe = B.tool(bd, "clifacts")
    rc, out, err = C.run([exe, os.path.join(C.REPO, "main.go")], timeout=60)
    if rc != 0:
        raise RuntimeError("clifacts failed: " + err[-500:])
    path = os.path.join(C.COQ, "theories", "Generated", "CliFacts.v")
    old = open(path).read() if os.path.exists(path) else None
    if old != out:
        with C.Lock("coq"):
            open(path, "w").write(out)
    return out


def complete_parser(text):
    return "func (p *T[U]) Init(" in text and "p.rules = _rules" in text and text.rstrip().endswith("}") and "const endSymbol rune" in text


def check(ctx):
    bd = C.build_dir()
    facts = regen_facts(bd)
    broken = C.proof_obligations(ctx)
    peg = os.path.join(bd, "peg")
    if not os.path.exists(peg):
        rc, out, err = C.run(["go", "build", "-o", peg, "."], cwd=C.REPO, env=C.GOENV, timeout=600)
        if rc != 0:
            raise RuntimeError("cannot build peg: " + err[-2000:])
    try:
        model = B.Model()
    except RuntimeError as e:
        model = None
        broken.append("model cannot be extracted: " + str(e)[:300])
    tmp = tempfile.mkdtemp(prefix="pegcli-")
    cases, mlines = [], []
    try:
        n = 0
        optsets = [[], ["-inline", "-switch"], ["-noast"]] if ctx.tier == "quick" else [[], ["-inline"], ["-switch"], ["-inline", "-switch"], ["-noast"], ["-noast", "-inline", "-switch"]]
        for strict, src, out, gclass, opts in itertools.product([False, True], ["file", "missing", "dir", "stdin", "stdin-dash", "stdin-null"],
                                                               ["unset", "named", "named-bad", "dash", "default-bad", "named-full", "dash-full"],
                                                               ["ok", "warn", "syntax", "badgo"], optsets):
            if out == "default-bad" and src not in ("file",):
                continue
            if opts and gclass != "ok" and strict:
                continue
            if src == "stdin-null" and gclass != "syntax":
                continue             # standard input is /dev/null (a character device): the empty text is not a grammar
            n += 1
            d = os.path.join(tmp, "c%d" % n)
            os.makedirs(d)
            gpath = os.path.join(d, "g.peg")
            with open(gpath, "w") as f:
                f.write(GRAMMARS[gclass])
            args = [peg] + (["-strict"] if strict else []) + opts
            stdin = None
            expect_default = os.path.join(d, "g.peg.go")
            named = os.path.join(d, "out.go")
            if out == "named":
                args += ["-output", named]
            elif out == "named-bad":
                args += ["-output", os.path.join(d, "nodir", "out.go")]
            elif out == "named-full":
                args += ["-output", "/dev/full"]         # opens, every write fails
            elif out in ("dash", "dash-full"):
                args += ["-output", "-"]
            elif out == "default-bad":
                os.makedirs(expect_default)          # <grammar>.go is a directory: cannot be opened for writing
            if src == "file":
                args.append(gpath)
            elif src == "missing":
                args.append(os.path.join(d, "missing.peg"))
            elif src == "dir":
                args.append(d)                       # opens, but ReadAll fails
            elif src == "stdin":
                stdin = GRAMMARS[gclass]
            elif src == "stdin-null":
                stdin = None
            else:
                args.append("-")
                stdin = GRAMMARS[gclass]
            if out == "dash-full":
                import subprocess
                try:
                    with open("/dev/full", "w") as full:
                        pr = subprocess.run(args, cwd=d, input=(stdin if stdin is not None else ""), stdout=full, stderr=subprocess.PIPE, text=True, timeout=60)
                    rc, so, se = pr.returncode, "", pr.stderr
                except subprocess.TimeoutExpired:
                    rc, so, se = 124, "", ""
            elif src == "stdin-null":
                import subprocess
                try:
                    pr = subprocess.run(args, cwd=d, stdin=subprocess.DEVNULL, stdout=subprocess.PIPE, stderr=subprocess.PIPE, text=True, timeout=60)
                    rc, so, se = pr.returncode, pr.stdout, pr.stderr
                except subprocess.TimeoutExpired:
                    rc, so, se = 124, "", ""
            else:
                rc, so, se = C.run(args, cwd=d, input=stdin if stdin is not None else "", timeout=60)
            # what the model is asked
            m_src = "file" if src in ("file", "missing", "dir") else "stdin"
            m_out = {"unset": "unset", "named": "named", "named-bad": "named", "dash": "dash", "default-bad": "unset", "named-full": "named", "dash-full": "dash"}[out]
            open_in = src != "missing"
            dest = "named" if m_out == "named" else ("stdout" if (m_out == "dash" or m_src == "stdin") else "grammar.go")
            open_out = out not in ("named-bad", "default-bad") and not (src == "dir" and out == "unset")
            if src == "dir" and out == "unset":
                open_out = False     # <dir>.go inside ... actually d + ".go" is creatable; recomputed below
            read_ok = src != "dir"
            if src == "dir" and out == "unset":
                open_out = True
            cid = "c%d" % n
            comp = {"ok": "ok", "warn": "warn", "syntax": "ok", "badgo": "badgo"}[gclass]
            write_ok = out not in ("named-full", "dash-full")
            mlines.append("cli %s %d %s %s %d %d %d %d %s %d" % (cid, strict, m_src, m_out, open_in, open_out, read_ok, gclass != "syntax", comp, write_ok))
            # where is a complete parser?
            found = []
            for label, pth in (("grammar.go", expect_default), ("named", named), ("grammar.go", d + ".go")):
                if os.path.isfile(pth):
                    try:
                        if complete_parser(open(pth, encoding="utf-8", errors="replace").read()):
                            found.append(label)
                    except OSError:
                        pass
            if complete_parser(so):
                found.append("stdout")
            cases.append(dict(cid=cid, args=[a.replace(d, "$D").replace(peg, "peg") for a in args], strict=strict, src=src, out=out, grammar=gclass,
                              rc=rc, stderr=se[:200], found=sorted(set(found)), dest=dest))
    finally:
        shutil.rmtree(tmp, ignore_errors=True)
    # model lines come back keyed ("cli", cid)? the generic parser keeps only run/spec/gen: parse here
    out_ = ""
    if model:
        rc_, out_, err_ = C.run([model.exe], input="\n".join(mlines) + "\n", timeout=120)
    mm = {}
    for line in out_.split("\n"):
        if line.startswith("cli "):
            head, rest = line.split(" :: ")
            mm[head.split(" ")[1]] = B.parse_obs(rest)
    bad = []
    nontriv = set()
    for c in cases:
        m = mm.get(c["cid"])
        exit0 = c["rc"] == 0
        msg = c["stderr"].strip() != ""
        if not m:
            if model:
                bad.append((c, "no model result"))
        elif exit0 != (m["exit0"] == "1"):
            bad.append((c, "exit status %d, model says exit0=%s" % (c["rc"], m["exit0"])))
        elif msg != (m["msg"] == "1"):
            bad.append((c, "stderr %s, model says msg=%s" % ("non-empty" if msg else "empty", m["msg"])))
        elif m["complete"] != "-" and m["complete"] not in c["found"]:
            bad.append((c, "no complete parser at %s (found at %s)" % (m["complete"], c["found"])))
        # the property itself, directly on the implementation (needs no model)
        if exit0 and c["dest"] not in c["found"] and c["out"] not in ("named-full", "dash-full"):
            bad.append((c, "PROPERTY: exit 0 without a complete parser at the requested destination %s (found %s)" % (c["dest"], c["found"])))
        if exit0 and (c["src"] in ("missing", "dir") or c["out"] in ("named-bad", "default-bad", "named-full", "dash-full") or c["grammar"] in ("syntax", "badgo")):
            bad.append((c, "PROPERTY: failure class exits 0"))
        nontriv.add((c["strict"], c["src"], c["out"], c["grammar"]))
    rep = 0
    for c, why in bad:
        key = "cli:%s|%s|%s|%s" % (c["strict"], c["src"], c["out"], c["grammar"])
        if ctx.known(key):
            ctx.known_lines.append("KNOWN-FINDING: property=C18 %s" % ctx.known(key)["what"])
            continue
        if rep >= 5:
            break
        rep += 1
        ctx.violation("CLI: %s  [%s]" % (why, " ".join(c["args"])), {"case": c, "why": why, "model": mm.get(c["cid"])},
                      found=why.startswith("PROPERTY") or "exit status" in why or "no complete" in why)
    if broken and not ctx.violations:
        ctx.violation("proof obligation for C18 no longer checks (facts regenerated from main.go: %s): %s" % (facts.replace("\n", " ")[-200:], broken[0][:200]),
                      {"broken": broken, "facts": facts}, found=False)
    ctx.coverage.update({
        "evaluations": len(cases), "distinct_nontrivial": len(nontriv), "exhaustive": True,
        "rule": "the real peg binary over strictness x source {file, missing file, directory (read fails), stdin, '-', stdin = /dev/null} x destination {default, -output FILE, unwritable FILE, '-', default that cannot be created} x grammar {valid, warned, syntax error, invalid Go} x option sets; exit status, stderr and the presence of a complete parser at each possible destination are compared with Model/Cli.v instantiated by facts regenerated from main.go; distinct = (strict, source, destination, grammar class)",
        "facts": facts.split("\n")[1:5],
        "samples": cases[:2] + cases[len(cases) // 2: len(cases) // 2 + 1],
        "mismatches": len(bad),
    })
