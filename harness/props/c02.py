from .corecheck import check  # noqa: F401
