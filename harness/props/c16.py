"""C16: the set package behaves as a mathematical set of code points."""
import itertools
import os
import re

from .. import common as C

BOUND = [0, 1, 64, 65, 66, 0x10FFFE, 0x10FFFF, 0x110000]


# ---- independent oracle: exact integer sets as normalised interval lists (python)
class ISet:
    def __init__(self, iv=()):
        self.iv = self._norm(iv)

    @staticmethod
    def _norm(iv):
        out = []
        for b, e in sorted(iv):
            if b > e:
                continue
            if out and b <= out[-1][1] + 1:
                out[-1] = (out[-1][0], max(out[-1][1], e))
            else:
                out.append((b, e))
        return out

    def add(self, b, e):
        return ISet(self.iv + [(b, e)])

    def union(self, o):
        return ISet(self.iv + o.iv)

    def compl(self, lim):
        out, pre = [], 0
        for b, e in self.iv:
            if b > lim:
                break
            if b > pre:
                out.append((pre, b - 1))
            pre = max(pre, e + 1)
        if pre <= lim:
            out.append((pre, lim))
        return ISet(out)

    def has(self, x):
        return any(b <= x <= e for b, e in self.iv)

    def len(self):
        return sum(e - b + 1 for b, e in self.iv)

    def inter(self, o):
        return any(max(b, b2) <= min(e, e2) for b, e in self.iv for b2, e2 in o.iv)

    def elems(self):
        return [x for b, e in self.iv for x in range(b, e + 1)]


PROBES = [-1, 0, 1, 2, 3, 4, 5, 6, 7, 8, 9, 10, 0x10FFFE, 0x10FFFF, 0x110000, 0x110001]


def oracle_check(ops, transcript):
    """Check the API results in an implementation transcript against the integer-set oracle.
    Returns None if everything the property talks about is right, else a description."""
    if "PANIC" in transcript or "TIMEOUT" in transcript or "CYCLE" in transcript:
        return "implementation panicked / hung: " + transcript[-200:]
    steps = transcript.split(" |")[1:]
    st = []
    opl = [o.strip() for o in ops.split(";") if o.strip()]
    if len(steps) != len(opl):
        return "transcript has %d steps for %d ops" % (len(steps), len(opl))
    for k, (op, dump) in enumerate(zip(opl, steps)):
        f = op.split()
        if f[0] == "N":
            st.append(ISet())
        elif f[0] == "A":
            i = int(f[1])
            if i < len(st):
                st[i] = st[i].add(int(f[2]), int(f[3]))
        elif f[0] == "C":
            st.append(ISet(st[int(f[1])].iv))
        elif f[0] == "U":
            st.append(st[int(f[1])].union(st[int(f[2])]))
        elif f[0] == "X":
            st.append(st[int(f[1])].compl(int(f[2])))
        sets = re.findall(r"s(\d+)\{([^|}]*)\|(-?\d+)\|([^|]*)\|([01]*)\}", dump)
        if len(sets) != len(st):
            return "step %d: %d sets dumped, %d expected" % (k, len(sets), len(st))
        for idx, nodes, ln, s, has in sets:
            o = st[int(idx)]
            if int(ln) != o.len():
                return "step %d (%s): Len of set %s is %s, the integer set has %d elements" % (k, op, idx, ln, o.len())
            if s != "big" and s != "[" + " ".join(map(str, o.elems())) + "]":
                return "step %d (%s): String of set %s is %s, expected %s" % (k, op, idx, s, o.elems())
            for x, bit in zip(PROBES, has):
                if (bit == "1") != o.has(x):
                    return "step %d (%s): Has(%d) on set %s is %s" % (k, op, x, idx, bit)
        for i, j, fl in re.findall(r"p(\d+)\.(\d+)=(..)", dump):
            a, b = st[int(i)], st[int(j)]
            if (fl[0] == "I") != a.inter(b):
                return "step %d (%s): Intersects(%s,%s) = %s" % (k, op, i, j, fl[0])
            if (fl[1] == "E") != (a.iv == b.iv):
                return "step %d (%s): Equal(%s,%s) = %s" % (k, op, i, j, fl[1])
    return None


def ranges(u):
    return [(b, e) for b in range(u + 1) for e in range(b, u + 1)]


def gen_cases(ctx):
    cases = []
    # corpus: the witnesses of the defects repaired by the fix: commits (regression) and hand-picked shapes
    corpus = [
        "N", "N;X 0 5", "N;A 0 1 1;A 0 2 2;N;A 1 1 2", "N;A 0 0 4;X 0 5", "N;A 0 0 4;X 0 5;A 1 2 3",
        "N;A 0 10 10;X 0 5", "N;A 0 0 5;X 0 5;X 1 5", "N;A 0 1114112 1114112;X 0 1114111;X 1 1114111",
        "N;A 0 5 6;A 0 1 2;A 0 9 9;A 0 3 4;A 0 7 8", "N;A 0 1 3;A 0 7 9;A 0 12 14;A 0 2 8",
        "N;A 0 0 0;A 0 2 2;A 0 1 1", "N;A 0 3 3;A 0 0 0;X 0 3;U 0 1;C 2;A 3 7 9;X 3 1114111",
    ]
    cases += [("corpus%d" % i, c) for i, c in enumerate(corpus)]
    thorough = ctx.tier == "thorough"
    u1 = 6 if thorough else 4
    rs = ranges(u1)
    n = 0
    for r1, r2, r3 in itertools.product(rs, repeat=3):
        ops = "N;A 0 %d %d;A 0 %d %d;A 0 %d %d;X 0 0;X 0 %d;X 0 %d" % (r1 + r2 + r3 + (u1 - 1, u1 + 1))
        cases.append(("ex3-%d" % n, ops))
        n += 1
    u2 = 4 if thorough else 3
    rs2 = ranges(u2)
    n = 0
    for r1, r2, r3, r4 in itertools.product(rs2, repeat=4):
        ops = "N;N;A 0 %d %d;A 0 %d %d;A 1 %d %d;A 1 %d %d;U 0 1;U 1 0" % (r1 + r2 + r3 + r4)
        cases.append(("ex4-%d" % n, ops))
        n += 1
    exhaustive_n = len(cases)
    rng = ctx.rng
    nrand = 20000 if thorough else 2000
    for k in range(nrand):
        nsets = 1
        ops = ["N"]
        for _ in range(rng.randint(3, 12)):
            c = rng.random()
            i = rng.randrange(nsets)

            def val():
                if rng.random() < 0.8:
                    return rng.randint(0, 14)
                return rng.choice(BOUND)
            if c < 0.55:
                b, e = sorted((val(), val()))
                ops.append("A %d %d %d" % (i, b, e))
            elif c < 0.65 and nsets < 6:
                ops.append("N"); nsets += 1
            elif c < 0.75 and nsets < 6:
                ops.append("C %d" % i); nsets += 1
            elif c < 0.88 and nsets < 6:
                ops.append("U %d %d" % (i, rng.randrange(nsets))); nsets += 1
            elif nsets < 6:
                ops.append("X %d %d" % (i, val())); nsets += 1
        cases.append(("rnd%d" % k, ";".join(ops)))
    return cases, exhaustive_n


def run_both(ctx, cases):
    bd = C.build_dir()
    model = C.ensure_model()
    gosrc = C.go_module(bd)
    exe = os.path.join(bd, "setdrv")
    rc, out, err = C.go_build(bd, "./setdrv", exe)
    if rc != 0:
        raise RuntimeError("cannot build the set driver against %s:\n%s" % (C.REPO, err[-3000:]))
    inp = "".join("set %s %s\n" % (cid, ops) for cid, ops in cases)
    rc1, mout, merr = C.run([model], input=inp, timeout=900)
    if rc1 != 0:
        raise RuntimeError("model driver failed: rc=%s %s" % (rc1, merr[-2000:]))
    rc2, gout, gerr = C.run([exe], input=inp, timeout=900)
    if rc2 == 124:
        gout += "\n"
    mt = {l.split(" ", 2)[1]: l for l in mout.split("\n") if l.startswith("set ")}
    gt = {l.split(" ", 2)[1]: l for l in gout.split("\n") if l.startswith("set ")}
    return mt, gt


def check(ctx):
    broken = C.proof_obligations(ctx)
    cases, exhaustive_n = gen_cases(ctx)
    if ctx.replay:
        cases = [(ctx.replay["replay"].get("case", "replay"), ctx.replay["replay"]["ops"])]
    mt, gt = run_both(ctx, cases)
    mism, nontrivial, seen = [], set(), set()
    for cid, ops in cases:
        m, g = mt.get(cid), gt.get(cid)
        if g is None:
            g = "set %s TIMEOUT" % cid
        if m != g:
            mism.append((cid, ops, m, g))
        if ops not in seen:
            seen.add(ops)
            if m and re.search(r"\{\d+-\d+,\d+-\d+", m):
                nontrivial.add(ops)
    # independent oracle on a sample of implementation transcripts (and on every mismatch)
    sample = ctx.rng.sample(cases, min(len(cases), 1500 if ctx.tier == "quick" else 8000))
    oracle_bad = []
    for cid, ops in sample:
        g = gt.get(cid) or ("set %s TIMEOUT" % cid)
        r = oracle_check(ops, g)
        if r:
            oracle_bad.append((cid, ops, r))
    reported = set()
    # look through the disagreements for ones on which the API itself contradicts the integer set
    judged = []
    for cid, ops, m, g in mism[:4000]:
        judged.append((cid, ops, m, g, oracle_check(ops, g or "")))
    judged.sort(key=lambda x: (x[4] is None, len(x[1])))
    for cid, ops, m, g, r in judged:
        key = "set:" + ops
        if ctx.known(key):
            ctx.known_lines.append("KNOWN-FINDING: property=C16 %s (%s)" % (ctx.known(key)["what"], ops))
            continue
        if len(reported) >= 5:
            break
        reported.add(cid)
        if r:
            ctx.violation("set package disagrees with the integer set: " + r,
                          {"case": cid, "ops": ops, "implementation": g, "model": m, "oracle": r}, found=True)
        else:
            ctx.violation("correspondence between Model/SetImpl.v and set/set.go broken on ops [%s]; API results still match the integer-set oracle" % ops,
                          {"case": cid, "ops": ops, "implementation": g, "model": m,
                           "broken": "correspondence SetImpl.v ~ set/set.go (node lists / API transcript)"}, found=False)
    for cid, ops, r in oracle_bad[:5]:
        if cid in reported:
            continue
        if ctx.known("set:" + ops):
            continue
        reported.add(cid)
        ctx.violation("set package disagrees with the integer set: " + r, {"case": cid, "ops": ops, "oracle": r}, found=True)
    if broken and not ctx.violations:
        ctx.violation("proof obligation for C16 no longer checks: " + broken[0][:200],
                      {"broken": broken, "theorems": ctx.coverage.get("theorems")}, found=False)
    ctx.coverage.update({
        "evaluations": len(cases),
        "distinct_nontrivial": len(nontrivial),
        "rule": "op sequences over New/AddRange/Copy/Union/Complement: corpus + exhaustive (3 insertions over [0,%d] then 3 complements; 2+2 insertions over [0,%d] then both unions) + %d random sequences with boundary values; after EVERY op every set's node list, Len, String, Has on 16 probes and all pairwise Intersects/Equal are compared between the extracted model and the Go package; non-trivial = distinct sequence that at some point holds a set with >= 2 nodes" % (6 if ctx.tier == "thorough" else 4, 4 if ctx.tier == "thorough" else 3, len(cases) - exhaustive_n),
        "exhaustive_part": exhaustive_n,
        "correspondence_mismatches": len(mism),
        "oracle_checked": len(sample),
        "oracle_disagreements": len(oracle_bad),
        "samples": [{"ops": ops, "implementation": (gt.get(cid) or "")[:400]} for cid, ops in [cases[3], cases[len(cases) // 2], cases[-1]]],
    })
