"""C10: documented .peg syntax means what the docs say; malformed text is rejected."""
import json
import os
import collections
import re

from .. import common as C
from .. import batch as B
from .. import peglib as P

LETTER_ESC = {7: "a", 8: "b", 27: "e", 12: "f", 10: "n", 13: "r", 9: "t", 11: "v"}


# ---------------------------------------------------------------- surface ASTs (mirror of Model/Front.v)
class SGen:
    def __init__(self, rng):
        self.rng = rng
        self.names = ["R%d" % i for i in range(rng.randint(1, 4))] + (["Undefined"] if rng.random() < 0.2 else [])
        self.nact = 0

    def ch(self, in_class=False):
        r = self.rng
        c = r.random()
        pool = [97, 98, 99, 122, 65, 90, 48, 32, 95]
        if c < 0.45:
            return ("c", r.choice(pool), "plain")
        if c < 0.60:
            return ("c", r.choice(list(LETTER_ESC)), "letter")
        if c < 0.72:
            return ("c", r.choice([39, 34, 91, 93, 45, 92]), "punct")
        if c < 0.82:
            v = r.choice([0, 7, 65, 127, 128, 255, 0x3B1, 0x10FFFF, 0xFFFD, 0x1F600, 0xD800, 0x110000])
            return ("hex", [int(d, 16) for d in "%X" % v] if r.random() < 0.5 else [int(d, 16) for d in "%x" % v])
        if c < 0.90:
            v = r.choice([0, 7, 8, 63, 64, 127, 128, 200, 255])
            return ("oct", [int(d) for d in (("%03o" % v) if (v >= 64 or r.random() < 0.5) else ("%o" % v))][:3])
        return ("c", r.choice([0xE9, 0x4E16, 0x1F600, 0x3BB]), "plain")

    @staticmethod
    def first_spelling_char(c):
        if c[0] == "hex":
            return "\\"
        if c[0] == "oct":
            return "\\"
        v = c[1]
        if v in LETTER_ESC or v in (92, 39, 34, 91, 93, 45):
            return "\\"
        return chr(v)

    def fix_chars(self, cs):
        """a hex escape swallows following hex digits, a short octal escape following octal digits: keep apart"""
        out = []
        for c in cs:
            if out:
                prev = out[-1]
                f = self.first_spelling_char(c)
                if prev[0] == "hex" and f in "0123456789abcdefABCDEF":
                    c = ("c", 0x7A, "plain")
                if prev[0] == "oct" and len(prev[1]) < 3 and f in "01234567":
                    c = ("c", 0x7A, "plain")
                if prev[0] == "oct" and len(prev[1]) == 3 and prev[1][0] > 3 and f in "01234567":
                    c = ("c", 0x7A, "plain")
            out.append(c)
        return out

    def expr(self, depth):
        r = self.rng
        c = r.random()
        if depth <= 0:
            c *= 0.45
        if c < 0.08:
            return ("dot",)
        if c < 0.18:
            return ("name", r.choice(self.names))
        if c < 0.30:
            return ("lit", self.fix_chars([self.ch() for _ in range(0 if r.random() < 0.08 else r.randint(1, 3))]))
        if c < 0.38:
            return ("ilit", self.fix_chars([self.ch() for _ in range(0 if r.random() < 0.08 else r.randint(1, 3))]))
        if c < 0.47:
            ins = r.random() < 0.3
            if r.random() < 0.08:
                return ("class", False, ins, [])          # an empty class: matches nothing
            items = []
            for _ in range(r.randint(1, 3)):
                if r.random() < 0.5:
                    a = ("c", r.choice([97, 98, 65, 48]), "plain")
                    b = ("c", a[1] + r.randint(0, 5), "plain")
                    items.append(("cr", a, b))
                else:
                    items.append(("ci", self.ch(True)))
            # keep escapes apart from following digits inside the class as well
            flat = []
            for it in items:
                flat += [it[1]] if it[0] == "ci" else [it[1], it[2]]
            fixed = self.fix_chars(flat)
            k2, items2 = 0, []
            for it in items:
                if it[0] == "ci":
                    items2.append(("ci", fixed[k2])); k2 += 1
                else:
                    items2.append(("cr", fixed[k2], fixed[k2 + 1])); k2 += 2
            return ("class", r.random() < 0.3, ins, items2)
        if c < 0.50:
            self.nact += 1
            return ("act", self.nact - 1)
        if c < 0.52:
            return ("pred", r.choice([0, 2, 3]))
        if c < 0.53:
            return ("state", 0)
        if c < 0.63:
            return ("seq", [self.expr(depth - 1) for _ in range(r.randint(2, 4))])
        if c < 0.73:
            return ("alt", r.random() < 0.2, [self.expr(depth - 1) for _ in range(r.randint(2, 4))])
        if c < 0.78:
            return ("group", self.expr(depth - 1))
        if c < 0.80:
            return ("group", ("nil",))
        op = r.choice(["and", "not", "q", "star", "plus", "push"])
        return (op, self.expr(depth - 1))


def sx_sexp(t, nid):
    k = t[0]
    if k == "c":
        return "(c %d)" % t[1]
    if k == "hex":
        return "(hex %s)" % " ".join(map(str, t[1]))
    if k == "oct":
        return "(oct %s)" % " ".join(map(str, t[1]))
    if k == "ci":
        return "(ci %s)" % sx_sexp(t[1], nid)
    if k == "cr":
        return "(cr %s %s)" % (sx_sexp(t[1], nid), sx_sexp(t[2], nid))
    if k in ("dot", "nil"):
        return "(%s)" % k
    if k == "name":
        return "(name %d)" % nid(t[1])
    if k in ("act", "pred", "state"):
        return "(%s %d)" % (k, t[1])
    if k in ("lit", "ilit"):
        return "(%s %s)" % (k, " ".join(sx_sexp(c, nid) for c in t[1]))
    if k == "class":
        return "(class %d %d %s)" % (t[1], t[2], " ".join(sx_sexp(i, nid) for i in t[3]))
    if k == "seq":
        return "(seq %s)" % " ".join(sx_sexp(x, nid) for x in t[1])
    if k == "alt":
        return "(alt %d %s)" % (t[1], " ".join(sx_sexp(x, nid) for x in t[2]))
    return "(%s %s)" % (k, sx_sexp(t[1], nid))


# ---------------------------------------------------------------- printing with spelling choices
class Printer:
    def __init__(self, rng, plain=False):
        self.rng, self.plain = rng, plain

    def ws(self, must=False):
        r = self.rng
        if self.plain:
            return " " if must else ""
        c = r.random()
        if c < 0.5:
            return " "
        if c < 0.6:
            return "" if not must else "\t"
        if c < 0.7:
            return "  \t "
        if c < 0.8:
            return "\n   "
        if c < 0.9:
            return " # a comment ' \" [ { <-\n  "
        return " // another comment\r\n "

    def ch(self, c, ctx):
        """ctx: 'sq' single quotes, 'dq' double quotes, 'cl' class"""
        if c[0] == "hex":
            return "\\0x" + "".join("%X" % d if self.rng.random() < 0.5 else "%x" % d for d in c[1])
        if c[0] == "oct":
            return "\\" + "".join(str(d) for d in c[1])
        v = c[1]
        if v in LETTER_ESC:
            return "\\" + LETTER_ESC[v]
        if v == 92:
            return "\\\\"
        if v == 39:
            return "\\'" if (ctx == "sq" or self.rng.random() < 0.5) else "'"
        if v == 34:
            return '\\"' if (ctx == "dq" or self.rng.random() < 0.5) else '"'
        if v in (91, 93, 45):
            return "\\" + chr(v) if (ctx == "cl" or self.rng.random() < 0.5) else chr(v)
        if v == 94 and ctx == "cl":
            return "\\0x5E"
        return chr(v)

    def pp(self, t, ctx=0):
        k = t[0]
        w = self.ws
        if k == "dot":
            s, p = ".", 4
        elif k == "name":
            s, p = t[1], 4
        elif k == "act":
            s, p = "{" + P.action_text(t[1], False) + "}", 4
        elif k == "pred":
            s, p = "&" + w() + "{ " + P.PREDS[t[1]] + " }", 2
        elif k == "state":
            s, p = "!" + w() + "{ p.N++ }", 2
        elif k == "nil":
            s, p = "", -1
        elif k == "lit":
            s, p = "'" + "".join(self.ch(c, "sq") for c in t[1]) + "'", 4
        elif k == "ilit":
            s, p = '"' + "".join(self.ch(c, "dq") for c in t[1]) + '"', 4
        elif k == "class":
            body = ""
            for i in t[3]:
                body += self.ch(i[1], "cl") if i[0] == "ci" else self.ch(i[1], "cl") + "-" + self.ch(i[2], "cl")
            s = ("[[" if t[2] else "[") + ("^" if t[1] else "") + body + ("]]" if t[2] else "]")
            p = 4
        elif k == "seq":
            s, p = (w(True)).join(self.pp(x, 2) for x in t[1]), 1
        elif k == "alt":
            s = (w() + "/" + w()).join(self.pp(x, 1) for x in t[2]) + ((w() + "/" + w()) if t[1] else "")
            p = 0
        elif k == "group":
            s, p = "(" + w() + self.pp(t[1], 0) + w() + ")", 4
        elif k in ("and", "not"):
            inner = self.pp(t[1], 3)
            if inner.lstrip().startswith("{"):
                inner = "(" + inner + ")"
                return "MUSTGROUP"
            s, p = ("&" if k == "and" else "!") + w() + inner, 2
        elif k in ("q", "star", "plus"):
            s, p = self.pp(t[1], 4) + w() + {"q": "?", "star": "*", "plus": "+"}[k], 3
        elif k == "push":
            s, p = "<" + w() + self.pp(t[1], 0) + w() + ">", 4
        else:
            raise ValueError(k)
        if p < ctx:
            return "NEEDGROUP"
        return s


def normalise(t):
    """insert the groups the concrete syntax needs (they build no node) so that printing is faithful"""
    k = t[0]
    prec = {"alt": 0, "seq": 1, "and": 2, "not": 2, "pred": 2, "state": 2, "q": 3, "star": 3, "plus": 3, "nil": -1}

    def g(x, need):
        x = normalise(x)
        if prec.get(x[0], 4) < need:
            return ("group", x)
        return x
    if k == "seq":
        return ("seq", [g(x, 2) for x in t[1]])
    if k == "alt":
        return ("alt", t[1], [g(x, 1) for x in t[2]])
    if k in ("and", "not"):
        x = g(t[1], 3)
        if x[0] == "act":
            x = ("group", x)
        return (k, x)
    if k in ("q", "star", "plus"):
        return (k, g(t[1], 4))
    if k in ("push", "group"):
        return (k, normalise(t[1]))
    return t


IMPORT_FORMS = [
    ([], ""),
    ([(None, "fmt")], 'import "fmt"\n'),
    ([("z", "os")], 'import z "os"\n'),
    ([(None, "a/b-c_d.e"), ("al1", "x/y")], 'import (\n\t"a/b-c_d.e"\n\tal1 "x/y"\n)\n'),
    ([(None, "p1"), (None, "p2")], 'import "p1"\nimport ( "p2"\n )\n'),
]

MALFORMED = [
    "R <- 'abc", 'R <- "abc', "R <- [abc", "R <- (a b", "R <- { x ", "R <- <a", "R <- a / / b", "R <- a ??", "R <- ?a", "R a b", "<- a",
    "R <- &", "R <- !", "R <- '\\q'", "R <- [\\q]", "R <- a )", "R <- a ]", "R <- a >", "R <- { { }", "R <- 'a' -", "R <- '\\8'", "R <- (a / ) )", "R <- [a", "R <- [[a", "R <- \"a", "R <- a b c <", "R <- a { ",
]
# malformed at the level of the file header (whole texts): unclosed import block (closed paths, the last one followed by a
# blank), unclosed import path, import without quotes, missing package name, missing `Peg`, unclosed parser state
MALFORMED_FILES = [
    "package p\n\nimport (\n\"strings\"\n\"unicode\" \ntype T Peg {\n}\n\nS <- 'a'\n",
    "package p\n\nimport (\n\"strings\"\ntype T Peg {\n}\n\nS <- 'a'\n",
    "package p\n\nimport (\nstr \"strings\" \n\ntype T Peg {\n}\n\nS <- 'a'\n",
    "package p\n\nimport \"strings\n\ntype T Peg {\n}\n\nS <- 'a'\n",
    "package p\n\nimport strings\n\ntype T Peg {\n}\n\nS <- 'a'\n",
    "package\n\ntype T Peg {\n}\n\nS <- 'a'\n",
    "package p\n\ntype T {\n}\n\nS <- 'a'\n",
    "package p\n\ntype T Peg {\n N int\n\nS <- 'a'\n",
    "package p\n\nimport (\n\"a\"\n) )\ntype T Peg {\n}\n\nS <- 'a'\n",
    # the shapes of C10_rejects_bad_import, C10_rejects_missing_type, C10_rejects_missing_Peg
    "package p\n\nimport 'fmt'\n\ntype T Peg {\n}\n\nS <- 'a'\n",
    "package p\n\nimport <fmt>\n\ntype T Peg {\n}\n\nS <- 'a'\n",
    "package p\n\nimport \"fmt\"\nimport\n",
    "package p\n\nS <- 'a'\n",
    "package p\n\nimport \"fmt\"\n\nTYPE T Peg {\n}\n\nS <- 'a'\n",
    "package p\n\ntype T peg {\n}\n\nS <- 'a'\n",
    "package p\n\ntype T\n",
]
# the witnesses of the former finding E1 (repaired by fix 10b1614): now ordinary grammars with a documented meaning
E1 = [("R", ("seq", [("lit", [("c", 97, "plain")]), ("lit", []), ("lit", [("c", 98, "plain")])]), "R <- 'a' '' 'b'"),
      ("R", ("seq", [("ilit", []), ("lit", [("c", 97, "plain")])]), 'R <- "" \'a\''),
      ("R", ("seq", [("class", False, False, []), ("lit", [("c", 97, "plain")])]), "R <- [] 'a'"),
      ("R", ("seq", [("class", False, True, []), ("lit", [("c", 97, "plain")])]), "R <- [[]] 'a'")]


def conv_raw(nodes, nid):
    rules, imports, pkg, struct = [], [], None, None
    idx = _IdMap(nid)
    for n in nodes:
        if n.t == P.T_RULE:
            rules.append((n.s, P.conv_expr(n.kids[0], idx, raw=True) if n.kids else None))
        elif n.t == 14:
            imports.append(n.s)
        elif n.t == 13:
            pkg = n.s
        elif n.t == 24:
            struct = n.s
    return rules, imports, pkg, struct


class _IdMap(dict):
    def __init__(self, nid):
        super().__init__()
        self.nid = nid

    def __contains__(self, k):
        return True

    def __getitem__(self, k):
        return self.nid(k)


def _digits(t):
    """the number written in an action / predicate text: its first run of digits (0 when there is none);
    ocaml/rddriver.ml numbers the texts the same way"""
    m = re.search(r"\d+", t)
    return int(m.group(0)) if m else 0


def _rd_expr(n, names):
    t = n.t
    if t == P.T_DOT:
        return "(dot)"
    if t == P.T_CHAR:
        if len(n.s) != 1:
            raise P.ConvError("character node with %d runes" % len(n.s))
        return "(c %d)" % ord(n.s)
    if t == P.T_RANGE:
        return "(r %d %d)" % (ord(n.kids[0].s), ord(n.kids[1].s))
    if t == P.T_NAME:
        return "(n %d)" % (names.index(n.s) if n.s in names else len(names))
    if t == P.T_PRED:
        return "(p %d)" % _digits(n.s)
    if t == P.T_STATE:
        return "(s %d)" % _digits(n.s)
    if t == P.T_ACTION:
        return "(a %d)" % _digits(n.s)
    if t == P.T_NIL:
        return "(nil)"
    if t in (P.T_ALT, P.T_SEQ):
        return "(%s %s)" % ("alt" if t == P.T_ALT else "seq", " ".join(_rd_expr(k, names) for k in n.kids))
    one = {P.T_AND: "and", P.T_NOT: "not", P.T_Q: "q", P.T_STAR: "star", P.T_PLUS: "plus", P.T_PUSH: "push"}
    if t in one:
        return "(%s %s)" % (one[t], _rd_expr(n.kids[0], names))
    raise P.ConvError("node type %d not convertible" % t)


def _cps(s):
    return " ".join(str(ord(c)) for c in s)


def _rd_nodes(nodes, names):
    """the front end's tree (before Compile), top level in order, in the notation of ocaml/rddriver.ml"""
    out = []
    for n in nodes:
        if n.t == 11:
            out.append("(sp %s)" % _cps(n.s))
        elif n.t == 12:
            out.append("(cm %s)" % _cps(n.s))
        elif n.t == 13:
            out.append("(pk %s)" % _cps(n.s))
        elif n.t == 14:
            out.append("(ia %s)" % _cps(n.s[1:]) if n.s.startswith("=") else "(im %s)" % _cps(n.s))
        elif n.t == 24:
            st = [k for k in n.kids if k.t == 15]
            out.append("(pg (%s) (%s))" % (_cps(n.s), _cps(st[0].s) if st else "?"))
        elif n.t == P.T_RULE:
            out.append("(ru (%s) %s)" % (_cps(n.s), _rd_expr(n.kids[0], names) if n.kids else "?"))
        else:
            out.append("(type%d)" % n.t)
    return "(file %s)" % " ".join(out)


def reader_stream(ctx, bd, problems):
    """Files written by Reader/File.v's [fshow] from generated concrete syntax (ocaml/rddriver.ml, one PRNG seed),
    kept when [file_okb] holds; the real front end must accept each and build exactly [file_nodes]."""
    exe = C.ensure_reader()
    n = 250 if ctx.tier == "quick" else 6000
    seed = ctx.rng.randint(1, 10 ** 6)
    rc, out, err = C.run(["bash", "-c", "ulimit -s unlimited 2>/dev/null; exec " + exe], input="names\ngen %d %d\n" % (seed, n), timeout=900)
    if rc != 0:
        raise RuntimeError("the reader driver failed (rc=%s): %s" % (rc, err[-500:]))
    names, cases, skipped, reqs, bad = [], {}, 0, [], {}
    for line in out.split("\n"):
        if line.startswith("names "):
            names = line.split(" ")[1:]
        elif line.startswith("rd "):
            head, rest = line.split(" :: ", 1)
            m = re.match(r"okb=(\d) run=(\d) text=([\d ]*) nodes=(.*)$", rest)
            cid = head.split(" ")[1]
            if not m:
                raise RuntimeError("unreadable reader driver line: " + line[:200])
            if m.group(1) != "1":
                skipped += 1
                continue
            text = "".join(chr(int(x)) for x in m.group(3).split())
            cases[cid] = dict(text=text, nodes=m.group(4), run=m.group(2))
            reqs.append(dict(id="rd_" + cid, text=text, out="", inline=False, switch=False, noast=False))
        elif line.startswith("bad "):
            # malformed variants of a well-formed file, in the shape of the rejection theorems (Reader/Reject.v)
            head, rest = line.split(" :: ", 1)
            cid = head.split(" ")[1]
            text = "".join(chr(int(x)) for x in rest[len("text="):].split())
            bad[cid] = text
            reqs.append(dict(id="bad_" + cid, text=text, out="", inline=False, switch=False, noast=False))
    res = B.frontdump(bd, reqs)
    ok = 0
    for cid, c in cases.items():
        replay = {"text": c["text"], "seed": seed, "case": cid, "model_nodes": c["nodes"][:2000]}
        if c["run"] != "1":
            problems.append(("Reader/FileBridge.v's builder, run over the calls of a well-formed file, does not end in file_nodes (the theorem C10_reader_file, evaluated)", replay, False))
            continue
        r = res.get("rd_" + cid, {})
        if r.get("panic"):
            problems.append(("the front end panics on a file written by Reader/File.v's fshow: " + r["panic"][:200], replay, True))
            continue
        if r.get("parse_err"):
            problems.append(("the front end rejects a well-formed file (file_okb) that the reader theorem says it accepts: " + r["parse_err"][:160].replace("\n", " "), replay, True))
            continue
        try:
            got = _rd_nodes(P.parse_dump(r["raw"]), names)
        except (P.ConvError, IndexError, KeyError) as e:
            problems.append(("the tree dumped for a reader-stream file is not convertible: %s" % e, replay, True))
            continue
        if got != c["nodes"]:
            replay["front_end_nodes"] = got[:2000]
            problems.append(("the front end builds another tree than Reader/FileBridge.v's file_nodes for a file written by fshow", replay, True))
            continue
        ok += 1
    kinds = {"t": "a well-formed file followed by a character that starts nothing (C10_rejects_trailing_text)",
             "q": "a well-formed file followed by a literal that is opened and never closed (C10_rejects_unclosed_literal)",
             "b": "a well-formed file followed by a group, capture, action or class that is opened and never closed (C10_rejects_unclosed_bracket)",
             "d": "a well-formed file followed by & or ! with only blanks and comments behind it (C10_rejects_dangling_prefix)",
             "s": "a text that stops inside the parser's state, Peg { opened and never closed (C10_rejects_unclosed_state)",
             "r": "the head of a file with no rule behind it (C10_rejects_text_without_rules)",
             "p": "comments and blank lines followed by something that is not the package clause (C10_rejects_text_without_package)"}
    rejected = collections.Counter()
    for cid, text in bad.items():
        k = cid.rsplit("/", 1)[1]
        r = res.get("bad_" + cid, {})
        replay = {"text": text, "seed": seed, "case": cid, "kind": kinds.get(k, k)}
        if r.get("panic"):
            problems.append(("the front end panics on malformed text: " + r["panic"][:200], replay, True))
        elif not r.get("parse_err"):
            problems.append(("the front end accepts text that is not a grammar - %s - which the rejection theorem says the rule Grammar refuses" % kinds.get(k, k), replay, True))
        else:
            rejected[k] += 1
    return dict(reader_files=len(cases), reader_skipped_not_wellformed=skipped, reader_agree=ok, reader_seed=seed,
                malformed_variants=len(bad), malformed_rejected=dict(rejected))


def check(ctx):
    # the reader theorems (Reader/*.v) are about peg.peg's own rule tree: regenerate it from the source first
    import shutil
    import tempfile
    from . import c17
    bd = C.build_dir()
    tmp = tempfile.mkdtemp(prefix="pegpp-")
    pp_problems = []
    try:
        c17.regen_pegpeg(bd, tmp, pp_problems)
    finally:
        shutil.rmtree(tmp, ignore_errors=True)
    for why, replay, found in pp_problems:
        ctx.violation(why, replay, found=found)
    broken = C.proof_obligations(ctx)
    model = B.Model()
    n = 300 if ctx.tier == "quick" else 5000
    reqs, mlines, expect = [], [], {}
    for i in range(n):
        sg = SGen(ctx.rng)
        ids = {}

        def nid(x, ids=ids):
            if x not in ids:
                ids[x] = len(ids)
            return ids[x]
        rules = []
        for nm in [x for x in sg.names if x != "Undefined"]:
            nid(nm)
        for nm in [x for x in sg.names if x != "Undefined"]:
            body = normalise(sg.expr(ctx.rng.randint(1, 3)))
            rules.append((nm, body))
        pr = Printer(ctx.rng, plain=(i % 5 == 0))
        imps, imptext = ctx.rng.choice(IMPORT_FORMS)
        arrow = lambda: "<-" if ctx.rng.random() < 0.7 else "←"
        hdr = ("# header comment\n" if ctx.rng.random() < 0.3 else "") + "package parser\n\n" + imptext + "\ntype Parser Peg {\n T []string\n N int\n}\n"
        text = hdr + "".join("%s%s%s%s%s\n" % (nm, pr.ws(), arrow(), pr.ws(), pr.pp(b, 0)) for nm, b in rules)
        if "NEEDGROUP" in text or "MUSTGROUP" in text:
            continue
        gid = "t%d" % i
        reqs.append(dict(id=gid, text=text, out="", inline=False, switch=False, noast=False))
        for k, (nm, b) in enumerate(rules):
            mlines.append("elab %s/%d %s" % (gid, k, sx_sexp(b, nid)))
        expect[gid] = dict(rules=rules, ids=ids, imports=imps, text=text)
    # malformed by construction, and the E1 witnesses
    hdr = "package parser\n\ntype Parser Peg {\n T []string\n N int\n}\n"
    for k, bad in enumerate(MALFORMED):
        reqs.append(dict(id="bad%d" % k, text=hdr + bad + "\n", out="", inline=False, switch=False, noast=False))
    for k, bad in enumerate(MALFORMED_FILES):
        reqs.append(dict(id="badf%d" % k, text=bad, out="", inline=False, switch=False, noast=False))
    for k, (nm, body, w) in enumerate(E1):
        gid = "e1_%d" % k
        ids = {"R": 0}
        reqs.append(dict(id=gid, text=hdr + w + "\n", out="", inline=False, switch=False, noast=False))
        mlines.append("elab %s/0 %s" % (gid, sx_sexp(body, lambda x, ids=ids: ids.setdefault(x, len(ids)))))
        expect[gid] = dict(rules=[(nm, body)], ids=ids, imports=[], text=hdr + w + "\n")
    reqs.append(dict(id="nohdr", text="R <- 'a'\n", out="", inline=False, switch=False, noast=False))
    reqs.append(dict(id="empty", text="", out="", inline=False, switch=False, noast=False))
    # truncations of valid texts
    trunc = []
    for gid in list(expect)[:60 if ctx.tier == "quick" else 600]:
        t = expect[gid]["text"]
        # the complete text followed by an opening delimiter that is never closed
        # (on a line of its own: the text may end inside a comment that runs to the end of the line)
        cut = t.rstrip() + "\n " + ctx.rng.choice(["(", "'", "[", "{", "<", '"', "[[", "&", "!"])
        trunc.append((gid, cut))
        reqs.append(dict(id="tr_" + gid, text=cut + "\n", out="", inline=False, switch=False, noast=False))
    res = B.frontdump(bd, reqs)
    rc_, out_, err_ = C.run(["bash", "-c", "ulimit -s unlimited 2>/dev/null; exec " + model.exe], input="\n".join(mlines) + "\n", timeout=600)
    mm = {}
    for line in out_.split("\n"):
        if line.startswith("elab "):
            head, rest = line.split(" :: ")
            mm[head.split(" ")[1]] = rest
    problems, nontriv, ev = [], 0, 0
    for gid, ex in expect.items():
        r = res.get(gid, {})
        ev += 1
        if r.get("panic"):
            problems.append(("the front end panics on a documented-syntax grammar: " + r["panic"][:200], {"text": ex["text"]}, True))
            continue
        if r.get("parse_err"):
            problems.append(("the front end rejects a grammar written in the documented syntax: " + r["parse_err"][:160].replace("\n", " "), {"text": ex["text"]}, True))
            continue
        ids = ex["ids"]

        def nid(x, ids=ids):
            if x not in ids:
                ids[x] = len(ids)
            return ids[x]
        try:
            rules, imports, pkg, struct = conv_raw(P.parse_dump(r["raw"]), nid)
        except (P.ConvError, IndexError, KeyError) as e:
            problems.append(("the tree dumped for a documented-syntax grammar is not convertible: %s" % e, {"text": ex["text"]}, True))
            continue
        want_imps = [p if a is None else p for a, p in ex["imports"]]
        got_imps = [s for s in imports]
        exp_imps = []
        for a, p in ex["imports"]:
            if a is not None:
                exp_imps.append("=" + a)
            exp_imps.append(p)
        if got_imps != exp_imps:
            problems.append(("imports are recorded as %s, the text says %s" % (got_imps, exp_imps), {"text": ex["text"]}, True))
        if [nm for nm, _ in rules] != [nm for nm, _ in ex["rules"]]:
            problems.append(("rules built: %s, text defines %s" % ([nm for nm, _ in rules], [nm for nm, _ in ex["rules"]]), {"text": ex["text"]}, True))
            continue
        for k, ((nm, got), (_, b)) in enumerate(zip(rules, ex["rules"])):
            m = mm.get("%s/%d" % (gid, k))
            if m is None:
                problems.append(("no model result", {"text": ex["text"]}, False))
                continue
            ok, _, want = m.partition(" ")
            if want != got:
                problems.append(("rule %s: the front end builds %s, the documented meaning is %s" % (nm, (got or "")[:300], want[:300]),
                                 {"text": ex["text"], "rule": nm, "front_end": got, "model_elab": want, "surface": sx_sexp(b, nid)}, True))
                break
        nontriv += 1
    for k, bad in enumerate(MALFORMED):
        r = res.get("bad%d" % k, {})
        ev += 1
        if r.get("panic"):
            problems.append(("the front end panics on malformed text %r: %s" % (bad, r["panic"][:100]), {"text": hdr + bad}, True))
        elif not r.get("parse_err"):
            problems.append(("malformed text %r is accepted" % bad, {"text": hdr + bad, "raw": (r.get("raw") or "")[:500]}, True))
    for k, bad in enumerate(MALFORMED_FILES):
        r = res.get("badf%d" % k, {})
        ev += 1
        if r.get("panic"):
            problems.append(("the front end panics on malformed text %r: %s" % (bad, r["panic"][:100]), {"text": bad}, True))
        elif not r.get("parse_err"):
            problems.append(("malformed text %r is accepted" % bad, {"text": bad, "raw": (r.get("raw") or "")[:500]}, True))
    for gid, cut in trunc:
        r = res.get("tr_" + gid, {})
        ev += 1
        if r.get("panic") or not r.get("parse_err"):
            problems.append(("a truncated grammar is %s" % ("accepted" if not r.get("panic") else "crashing the front end"), {"text": cut}, True))
    for gid in ("nohdr", "empty"):
        r = res.get(gid, {})
        ev += 1
        if r.get("panic") or not r.get("parse_err"):
            problems.append(("text without the package/type header (%s) is not reported as an error" % gid, {"text": gid}, True))
    try:
        rd_cov = reader_stream(ctx, bd, problems)
    except RuntimeError as e:
        # the reader's definitions are kept apart from its proofs (Reader/Defs.v, Reader/BridgeDefs.v), so this should
        # only happen when the definitions themselves no longer build
        rd_cov = dict(reader_files=0, reader_agree=0, reader_skipped_not_wellformed=0, reader_seed=None, reader_not_run=str(e)[-400:])
        if not broken:
            raise
    ev += rd_cov["reader_files"]
    nontriv += rd_cov["reader_agree"]
    rep = 0
    seen = set()
    for what, replay, found in problems:
        if what[:50] in seen or rep >= 6:
            continue
        seen.add(what[:50])
        rep += 1
        ctx.violation(what, replay, found=found)
    if broken and not ctx.violations:
        ctx.violation("proof obligation for C10 no longer checks: " + broken[0][:200], {"broken": broken}, found=False)
    ctx.coverage.update({
        "evaluations": ev, "distinct_nontrivial": nontriv,
        "rule": "surface grammars (every construct of docs/peg-file-syntax.md and peg.peg: literals in both quote styles, classes incl. negated / case-insensitive / ranges, every escape spelling, prefix and suffix operators, captures, actions, predicates, groups, empty alternatives, imports in single / aliased / grouped forms, # and // comments, both arrows, arbitrary white space) are printed with random spelling choices, parsed by the real front end, and the raw rule tree (walked through exported accessors) is compared with the tree Model/Front.v's builder machine computes for the surface expression; %d malformed-by-construction texts, truncations of valid texts and header-less texts must be rejected without panic" % len(MALFORMED),
        "problems": len(problems), "malformed": len(MALFORMED) + len(trunc) + 2,
        "reader_stream": dict(rd_cov, rule="concrete syntax trees with random layout and spellings (ocaml/rddriver.ml, seeded) are printed by the extracted Reader/File.v fshow; those with file_okb = true are parsed by the real front end and its raw tree is compared, node for node, with the extracted file_nodes (what C10_reader_file says is built); of each such file three malformed variants in the shape of the rejection theorems (the file followed by a character that starts nothing; its head with no rule behind it; its comments followed by something that is not the package clause) are given to the real front end, which must refuse each"),
        "samples": [{"text": list(expect.values())[1]["text"][-300:]}],
    })
