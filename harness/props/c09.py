"""C09: code generation is deterministic and free of data races."""
import hashlib
import json
import os
import shutil
import tempfile

from .. import common as C
from .. import batch as B
from .. import core
from .. import peglib as P
from .c15 import IllGen


def regen_footprints(bd):
    exe = B.tool(bd, "footprints")
    rc, out, err = C.run([exe, C.REPO], timeout=120)
    if rc != 0:
        raise RuntimeError("footprints failed: " + err[-500:])
    path = os.path.join(C.COQ, "theories", "Generated", "Footprints.v")
    if not os.path.exists(path) or open(path).read() != out:
        with C.Lock("coq"):
            open(path, "w").write(out)
    return out


def check(ctx):
    bd = C.build_dir()
    facts = regen_footprints(bd)
    broken = C.proof_obligations(ctx)
    # race-instrumented binaries
    pegr = os.path.join(bd, "peg-race")
    if not os.path.exists(pegr):
        rc, out, err = C.run(["go", "build", "-race", "-o", pegr, "."], cwd=C.REPO, env=C.GOENV, timeout=900)
        if rc != 0:
            raise RuntimeError("cannot build peg -race: " + err[-2000:])
    fdr = os.path.join(bd, "frontdump-race")
    if not os.path.exists(fdr):
        g = C.go_module(bd)
        shutil.copy(os.path.join(C.REPO, "peg.peg.go"), os.path.join(g, "frontdump", "peg.peg.go"))
        rc, out, err = C.go_build(bd, "./frontdump", fdr, race=True)
        if rc != 0:
            raise RuntimeError("cannot build frontdump -race: " + err[-2000:])
    n = 12 if ctx.tier == "quick" else 300
    reps = 2 if ctx.tier == "quick" else 10
    grams = []
    for i in range(n):
        gg = [P.GGen, P.GGenBT, P.GGenSW, IllGen][i % 4](ctx.rng)
        rules = gg.grammar()
        if len({nm for nm, _ in rules}) != len(rules):
            continue        # duplicate definitions are an error, not a generation
        grams.append(("g%d" % i, P.grammar_text(rules)))
    # a grammar raising all three warning kinds at once
    grams.append(("warn3", "package parser\ntype Parser Peg {}\nA <- A 'x' / Missing\nUnused <- 'u' Unused?\n"))
    tmp = tempfile.mkdtemp(prefix="pegdet-")
    diffs, races, evals = [], [], 0
    samples = []
    try:
        for gid, text in grams:
            path = os.path.join(tmp, gid + ".peg")
            open(path, "w").write(text)
            seen = {}
            for optset in ([], ["-inline", "-switch"]):
                for procs in ("1", "2", "16"):
                    for r in range(reps if procs == "16" else 1):
                        out = os.path.join(tmp, "%s.go" % gid)      # same argument list on every run
                        env = dict(C.GOENV, GOMAXPROCS=procs)
                        rc, so, se = C.run([pegr] + optset + ["-output", out, path], env=env, timeout=120)
                        evals += 1
                        if "DATA RACE" in se or rc == 66:
                            races.append((gid, text, se[:3000]))
                        data = open(out, "rb").read() if os.path.exists(out) else b""
                        key = (tuple(optset),)
                        sig = (rc, hashlib.sha256(data).hexdigest(), se)
                        if key in seen and seen[key][0] != sig:
                            diffs.append((gid, text, optset, procs, seen[key][1], (rc, len(data), se[:200])))
                        seen.setdefault(key, (sig, (rc, len(data), se[:200])))
                        try:
                            os.remove(out)
                        except OSError:
                            pass
            if len(samples) < 2:
                samples.append({"grammar": text.split("}\n", 1)[-1].strip()[:200], "outcome": list(seen.values())[0][1]})
        # concurrent Compile of independent trees in one process vs. one at a time
        reqs = []
        for gid, text in grams:
            for o in ("d", "is"):
                os_ = B.OPTSETS[o]
                reqs.append(dict(id="%s/%s" % (gid, o), text=text, out=os.path.join(tmp, "%s.%s.go" % (gid, o)), strict=True,
                                 args=["peg", "grammar.peg"], **os_))

        def run_fd(par):
            env = dict(C.GOENV, FRONTDUMP_PAR=str(par))
            rc, so, se = C.run([fdr], input="".join(json.dumps(r) + "\n" for r in reqs), env=env, timeout=900)
            res = {}
            for line in so.split("\n"):
                if line.startswith("RESP "):
                    r = json.loads(line[5:])
                    f = r["id"].replace("/", ".")
                    pth = os.path.join(tmp, f + ".go")
                    data = open(pth, "rb").read() if os.path.exists(pth) else b""
                    res[r["id"]] = (hashlib.sha256(data).hexdigest(), r.get("compile_err"), r.get("panic"), r.get("linked"))
                    try:
                        os.remove(pth)
                    except OSError:
                        pass
            return res, se, rc
        seq, se1, rc1 = run_fd(1)
        for rnd in range(2 if ctx.tier == "quick" else 6):
            par, se2, rc2 = run_fd(8)
            evals += len(reqs)
            if "DATA RACE" in se2 or rc2 == 66:
                races.append(("concurrent-compile", "", se2[:3000]))
            for r in reqs:
                if seq.get(r["id"]) != par.get(r["id"]):
                    diffs.append((r["id"], r["text"], "concurrent Compile", "8 goroutines", seq.get(r["id"], ("",))[:3], par.get(r["id"], ("",))[:3]))
    finally:
        shutil.rmtree(tmp, ignore_errors=True)
    for gid, text, rep in races[:2]:
        ctx.violation("race detector report during generation (%s)" % gid, {"grammar": text, "race_report": rep}, found=True)
    for d in diffs[:4]:
        ctx.violation("generation is not deterministic for grammar %s: %s vs %s" % (d[0], d[4], d[5]),
                      {"grammar": d[1], "options": d[2], "setting": d[3], "first": d[4], "other": d[5]}, found=True)
    if broken and not ctx.violations:
        ctx.violation("proof obligation for C09 no longer checks (footprints regenerated from tree/peg.go): " + broken[0][:300],
                      {"broken": broken, "facts": facts}, found=False)
    ctx.coverage.update({
        "evaluations": evals, "distinct_nontrivial": len(grams),
        "rule": "race-instrumented peg: every grammar (mixed, backtracking, switch-shaped, ill-formed with warnings; one raising all three warning kinds) generated with default and -inline -switch options under GOMAXPROCS 1, 2 and 16 (repeated), output bytes + exit status + stderr must coincide and the race detector stay silent; independent trees compiled concurrently (8 goroutines) in one race-instrumented process vs one at a time; the goroutine footprints and nondeterminism-source lists are regenerated from tree/peg.go into Generated/Footprints.v and the instance theorems re-checked",
        "facts": facts.split("\n")[4:13], "race_reports": len(races), "differences": len(diffs), "samples": samples,
    })
