"""C08: every accepted grammar yields valid, gofmt-clean Go under every option set."""
import os

from .. import common as C
from .. import batch as B
from .. import core
from .. import peglib as P

HDR = "package parser\n\ntype Parser Peg {\n T []string\n N int\n}\n"


def special_grammars(ctx):
    gs = []

    def add(gid, text, text_noast=None):
        gs.append(dict(id=gid, text=text, text_noast=text_noast or text))
    # the Go compiler's time on the one Init function grows quadratically with the rule count once the parser is
    # instantiated (300 rules: 40 s, 1000: 400 s, 3000: about an hour per option set); the full compile stops at
    # 1000 rules and the larger sizes are parsed, type-checked and gofmt-checked without instantiation (typecheck_only)
    n = 300 if ctx.tier == "quick" else 1000
    add("many%d" % n, HDR + "S <- R0 !.\n" + "".join("R%d <- 'a' R%d? { p.N++ }\n" % (i, i + 1) for i in range(n)) + "R%d <- <'b'> { p.N++ }\n" % n)
    add("mix200", HDR + "S <- R0 !.\n" + "".join("R%d <- 'a' R%d? %s\n" % (i, i + 1, "{ p.N++ }" if i % 5 < 3 else "") for i in range(200)) + "R200 <- <'b'> Undef1? Undef2?\n")
    add("imports", "package parser\n\nimport \"fmt\"\nimport z \"os\"\nimport (\n\tb \"bytes\"\n\t\"strings\"\n\t\"math\"\n)\nimport \"io\"\n\ntype Parser Peg {\n T []string\n N int\n}\n"
        "S <- <'a'> { _ = fmt.Sprint(z.Args, b.MinRead, strings.ToLower(text), math.Pi, io.EOF) } !.\n")
    # aliased imports whose path is a prefix of another imported path (gofmt sorts by path, then alias)
    add("imports2", "package parser\n\nimport m \"math\"\nimport \"math/rand\"\nimport (\n\txos \"os\"\n\t\"os/exec\"\n\ts2 \"strings\"\n\t\"strconv\"\n)\n\ntype Parser Peg {\n T []string\n N int\n}\n"
        "S <- 'a' { _ = m.Pi; _ = rand.Int(); _ = xos.Args; _ = exec.ErrNotFound; _ = s2.ToLower(strconv.Itoa(1)) } !.\n")
    add("header", "# a comment with */ and \"quotes\" and a tab\there\n// second style {braces}\n\n\n# third\n" + HDR + "S <- 'a' # trailing comment\n   'b' // another\n !.\n")
    add("chars", HDR + "S <- '\\a' '\\b' '\\e' '\\f' '\\n' '\\r' '\\t' '\\v' '\\'' '\\\"' '\\[' '\\]' '\\-' '\\\\' '\\0' '\\177' '\\0x7f' '\\0xA0'\n"
        "     'é' '日本' '\U0001F600' '\\0x10FFFF' '\\0xFFFD' '\\0xD800' \"\\0x1F600K\"\n     [\\a-\\f] [^\\n\\r] [\\0x100-\\0x17F\\]\\[\\-] [[é-ï]] [\"'] ['] !.\n")
    add("predcmt", HDR + "S <- &{ /* c */ true } 'a' &{ true /* */ } !{ p.N++ /* */ } { /* */ p.N++ /* x */ // line comment in an action\n } !.\n")
    add("predlinecmt", HDR + "S <- 'a' &{ true // to the end of the line\n } !.\n")
    add("noterm", HDR + "S <- &{ true } { p.N++ } A\nA <- !{ p.N++ } ()\n")
    add("braces", HDR + "S <- 'a' { if p.N > 0 { p.N = func() int { return 1 }() } } !.\n")
    add("quotes", HDR + "S <- ['] [\"] '\"' \"'\" ![\\]] . !.\n")
    add("deep", HDR + "S <- " + "(" * 40 + "'a'" + ")?" * 40 + " !.\n")
    # actions that declare local variables (valid Go inside the block the generator gives each action), in
    # repetitions, twice in one sequence, in switch cases, and an empty action after a trailing option
    add("locals", HDR + "S <- (',' N { n := p.N; p.N = n + 1 })* A B C !.\n"
        "A <- 'a' { n := 1; p.N += n } 'b' { n := 2; p.N += n }\n"
        "B <- ('x' { v := p.N; _ = v } / 'y' 'k'? { } / 'z' { v := 2; _ = v })?\n"
        "C <- (<'c'+> { v := len(p.T); _ = v } / 'd' { var v int; _ = v } / 'e')*\n"
        "N <- [0-9]+ { d := 0; _ = d }\n")
    # a switch case whose sequence ends with something that prints nothing after an optional / a choice / a nested switch
    add("trailnil", HDR + "S <- A B C !.\nA <- 'b' 'y' / 'a' 'x'? () / 'c' 'z'\nB <- 'd' / 'e' ('p' / 'q') () / 'f' 'g'? () ()\nC <- ('h' / 'i' ('r' / 's' / 't' 'u'?) () / 'j')?\n")
    add("cap", HDR + "S <- <<'a'> <'b'*>> <> !.\n", HDR + "S <- <<'a'> <'b'*>> <> !.\n")
    return gs


def check(ctx):
    broken = C.proof_obligations(ctx)
    data = core.run_core(ctx)
    problems, files = [], 0
    for gid, gi in data["grammars"].items():
        if not gi["opts"]["d"]["generated"] and not gi["opts"]["d"].get("panic"):
            continue            # the front end / strict mode refused the grammar: not an accepted grammar
        for o, oi in gi["opts"].items():
            files += 1
            why = None
            if oi.get("panic"):
                why = "the generator panics: " + oi["panic"][:200]
            elif not oi["generated"]:
                why = "no output under this option set although the default options generate: " + str(oi.get("compile_err") or oi.get("parse_err"))[:200]
            elif not oi["compiles"]:
                why = "the generated file does not compile: " + (oi.get("build_error") or "")[:300]
            elif oi.get("gofmt_clean") is False:
                why = "the generated file is not in canonical gofmt form"
            if why:
                problems.append((why, {"grammar": gi["text_noast"] if B.OPTSETS[o]["noast"] else gi["text"], "options": B.OPTSETS[o], "why": why}))
    # the label / block / variable skeleton of every rule function vs Model/Emit.v (structural tie, needs no input)
    skel_cmp = 0
    stmt_cmp = 0
    for gid, gi in data["grammars"].items():
        for o, oi in gi["opts"].items():
            if oi.get("emit") is None or oi.get("skel") is None or oi.get("conv_err"):
                continue
            skel_cmp += 1
            if oi["emit"] != oi["skel"]:
                ms, ks = oi["emit"].split(";"), oi["skel"].split(";")
                k = next((i for i, (a, b) in enumerate(zip(ms, ks)) if a != b), min(len(ms), len(ks)))
                nm = (oi.get("names") or [])[k] if k < len(oi.get("names") or []) else k
                why = "the code emitted for rule %s has another label/block skeleton than Model/Emit.v: emitted %s, model %s" % (
                    nm, (ks[k] if k < len(ks) else "-")[:150], (ms[k] if k < len(ms) else "-")[:150])
                problems.append((why, {"grammar": gi["text_noast"] if B.OPTSETS[o]["noast"] else gi["text"], "options": B.OPTSETS[o], "why": why,
                                       "broken": "correspondence Model/Emit.v ~ tree/peg.go compile"}))
    # dedicated streams
    bd = C.build_dir()
    gs = special_grammars(ctx)
    allopts = ["d", "i", "s", "is", "n", "ni", "ns", "nis"]
    bt = B.Batch(bd, "c08", gs, allopts, strict=False)
    try:
        bt.generate().build()
        # the rule-constant type in the emitted file vs the model's choice from the tree length
        import re as _re
        mlines, emitted, skels, stmts = [], {}, {}, {}
        for g in gs:
            for o in allopts:
                it = bt.items[(g["id"], o)]
                r = it["resp"]
                pth = os.path.join(bt.dir, "pkgs", it["pkg"], "parser.go")
                if r.get("linked") and os.path.exists(pth):
                    m_ = _re.search(r"^type pegRule (\w+)", open(pth, encoding="utf-8", errors="replace").read(), _re.M)
                    tlen = len(P.parse_dump(r["linked"]))
                    cid = "%s.%s" % (g["id"], o)
                    emitted[cid] = (m_.group(1) if m_ else None, tlen, g, o)
                    mlines.append("ruletype %s %d" % (cid, tlen))
                    try:
                        nodes = P.parse_dump(r["linked"])
                        sexp, ptx, names, _ = P.linked_to_model(nodes)
                        # under -noast the user's action text is pasted into the rule functions: streams whose actions
                        # contain their own blocks, declarations or nothing at all are compared in AST mode only
                        usercode = g["id"] in ("locals", "braces", "predcmt", "predlinecmt", "noterm", "imports", "imports2") and B.OPTSETS[o]["noast"]
                        if "nilkey" not in sexp and not usercode and not (g["id"].startswith("many") and o not in ("d", "nis")):
                            from .. import emitskel
                            sk = emitskel.skeletons(open(pth, encoding="utf-8", errors="replace").read())
                            skels[cid] = (";".join(sk) if sk is not None else None, names, g, o)
                            sts = emitskel.statements(open(pth, encoding="utf-8", errors="replace").read())
                            stmts[cid] = ";".join(sts) if sts is not None else None
                            mlines.append("grammar %s %d %s" % (cid, ptx, sexp))
                            mlines.append("emit %s %d %d %s" % (cid, 0 if B.OPTSETS[o]["noast"] else 1, 1 if B.OPTSETS[o]["inline"] else 0, P.undef_bits(nodes)))
                            # the statement-level model is quadratic in the number of labels: on the 1000-rule stream of the
                            # thorough tier only the skeleton is compared (the 300-rule stream of the quick tier has both)
                            if len(names) <= 400:
                                mlines.append("semit %s %d %d %s" % (cid, 0 if B.OPTSETS[o]["noast"] else 1, 1 if B.OPTSETS[o]["inline"] else 0, P.undef_bits(nodes)))
                    except P.ConvError:
                        pass
        # the driver is single-threaded: the lines of one generated file stay together, the files are spread over processes
        import concurrent.futures
        exe_ = B.Model().exe
        groups_ = {}
        for ln in mlines:
            groups_.setdefault(ln.split(" ")[1], []).append(ln)
        chunks_ = [[] for _ in range(16)]
        for k_, key_ in enumerate(sorted(groups_, key=lambda x: -sum(len(y) for y in groups_[x]))):
            chunks_[k_ % 16].extend(groups_[key_])

        def one_(chunk):
            if not chunk:
                return 0, "", ""
            return C.run(["bash", "-c", "ulimit -s unlimited 2>/dev/null; exec " + exe_], input="\n".join(chunk) + "\n", timeout=600)
        with concurrent.futures.ThreadPoolExecutor(max_workers=16) as ex_:
            results_ = list(ex_.map(one_, chunks_))
        rc_ = next((r[0] for r in results_ if r[0] != 0), 0)
        out_ = "\n".join(r[1] for r in results_)
        err_ = "\n".join(r[2] for r in results_ if r[2])
        if rc_ != 0:
            problems.append(("the model driver failed on the dedicated streams (rc=%s): %s" % (rc_, err_[-300:]),
                             {"why": "model driver", "broken": "model driver", "options": {}}))
        for line in out_.split("\n"):
            if line.startswith("emit "):
                head, want = line.split(" :: ")
                cid = head.split(" ")[1].rsplit("/", 1)[0]
                got, names, g, o = skels.get(cid, (None, None, None, None))
                if got is not None:
                    skel_cmp += 1
                    if got != want:
                        ms, ks = want.split(";"), got.split(";")
                        k = next((i for i, (a, b) in enumerate(zip(ms, ks)) if a != b), min(len(ms), len(ks)))
                        why = "[%s] the code emitted for rule %s has another label/block skeleton than Model/Emit.v: emitted %s, model %s" % (
                            g["id"], names[k] if k < len(names) else k, (ks[k] if k < len(ks) else "-")[:150], (ms[k] if k < len(ms) else "-")[:150])
                        problems.append((why, {"grammar": g["text"][:2000], "stream": g["id"], "options": B.OPTSETS[o], "why": why,
                                               "broken": "correspondence Model/Emit.v ~ tree/peg.go compile"}))
            if line.startswith("semit "):
                head, want = line.split(" :: ")
                cid = head.split(" ")[1].rsplit("/", 1)[0]
                got = stmts.get(cid)
                _, names, g, o = skels.get(cid, (None, None, None, None))
                want = want.split(" ", 1)[1] if want.startswith("deep=") else want
                if got is not None and g is not None:
                    stmt_cmp += 1
                    if got != want:
                        ms, ks = want.split(";"), got.split(";")
                        k = next((i for i, (a, b) in enumerate(zip(ms, ks)) if a != b), min(len(ms), len(ks)))
                        ma, ka = (ms[k] if k < len(ms) else "-").split(","), (ks[k] if k < len(ks) else "-").split(",")
                        j = next((i for i, (a, b) in enumerate(zip(ma, ka)) if a != b), min(len(ma), len(ka)))
                        why = "[%s] the statements emitted for rule %s differ from Model/SEmit.v at statement %d: emitted ..%s, model ..%s" % (
                            g["id"], names[k] if k < len(names) else k, j, ",".join(ka[max(0, j - 3):j + 4])[:120], ",".join(ma[max(0, j - 3):j + 4])[:120])
                        problems.append((why, {"grammar": g["text"][:2000], "stream": g["id"], "options": B.OPTSETS[o], "why": why,
                                               "broken": "correspondence Model/SEmit.v ~ tree/peg.go compile"}))
            if line.startswith("ruletype "):
                head, want = line.split(" :: ")
                cid = head.split(" ")[1]
                got, tlen, g, o = emitted[cid]
                if got != want:
                    problems.append(("[%s] the rule-constant type emitted is %s, the model chooses %s for a tree of %d nodes" % (g["id"], got, want, tlen),
                                     {"grammar": g["text"][:2000], "stream": g["id"], "options": B.OPTSETS[o], "why": "pegRule type"}))
        for g in gs:
            for o in allopts:
                it = bt.items[(g["id"], o)]
                r = it["resp"]
                files += 1
                why = None
                if r.get("panic"):
                    why = "the generator panics: " + r["panic"][:200]
                elif r.get("parse_err"):
                    why = "the front end rejects the grammar: " + r["parse_err"][:200]
                elif r.get("compile_err"):
                    why = "generation fails: " + r["compile_err"][:300]
                elif not it.get("compiles"):
                    why = "the generated file does not compile: " + (it.get("build_error") or "")[:300]
                elif it.get("gofmt_clean") is False:
                    why = "the generated file is not in canonical gofmt form"
                if why:
                    problems.append(("[%s] %s" % (g["id"], why), {"grammar": g["text"][:4000], "stream": g["id"], "options": B.OPTSETS[o], "why": why}))
    finally:
        bt.cleanup()
    tc_files = typecheck_only(ctx, bd, allopts, problems)
    files += tc_files
    rep, seen = 0, set()
    problems.sort(key=lambda x: 1 if x[1].get("broken") else 0)       # failing inputs first, broken correspondence after
    for why, replay in problems:
        k = ctx.known("gen08:%s|%s" % (replay.get("stream", ""), json_key(replay["options"])))
        if k:
            line = "KNOWN-FINDING: property=C08 %s" % k["what"]
            if line not in ctx.known_lines:
                ctx.known_lines.append(line)
            continue
        sig = (replay.get("stream"), why[:60])
        if sig in seen or rep >= 6:
            continue
        seen.add(sig)
        rep += 1
        ctx.violation(why, replay, found=not replay.get("broken"))
    if broken and not ctx.violations:
        ctx.violation("proof obligation for C08 no longer checks: " + broken[0][:200], {"broken": broken}, found=False)
    ctx.coverage.update({
        "evaluations": files, "distinct_nontrivial": len(data["grammars"]) + len(gs),
        "rule": "every file generated for the shared batch (random/backtracking/switch-shaped/inline-shaped grammars x 8 option sets) plus dedicated streams (%s) x 8 option sets: go build (parse + type check + compile), gofmt -l; a file counts as non-trivial per distinct grammar; plus %d files of 3000 (thorough: and 66000) rules parsed, type-checked and gofmt-checked without instantiating the parser" % (", ".join(g["id"] for g in gs), tc_files),
        "problems": len(problems),
        "skeletons_compared": skel_cmp,
        "statement_level_files_compared": stmt_cmp,
        "samples": [{"stream": g["id"], "grammar": g["text"][:160]} for g in gs[1:4]],
    })


def typecheck_only(ctx, bd, allopts, problems):
    """Thousands of rules: generate, then `go build` the parser package alone (the generic parser is parsed and
    type-checked in full, not instantiated) and gofmt -l.  The thorough tier also crosses the uint16 rule type."""
    flat = lambda n: dict(id="tc-flat%d" % n, text=HDR + "S <- " + " ".join("R%d" % i for i in range(n)) + " !.\n" + "".join("R%d <- [a-c] { p.N++ } / 'd' 'e'? / <'f'*> 'g'\n" % i for i in range(n)))
    chain = lambda n: dict(id="tc-chain%d" % n, text=HDR + "S <- R0 !.\n" + "".join("R%d <- 'a' R%d? { p.N++ }\n" % (i, i + 1) for i in range(n)) + "R%d <- <'b'> { p.N++ }\n" % n)
    runs = [([chain(3000), flat(3000)], allopts if ctx.tier != "quick" else ["d", "nis"])]
    if ctx.tier != "quick":
        # more rules than a uint16 holds; without -switch (the first-set fixpoint over 66000 rules takes the
        # generator longer than the harness waits) and not as one chain under -inline (the nesting would exceed
        # what go/parser accepts at all, 100000 levels: a limit of Go, not of the generator)
        runs.append(([flat(66000)], ["d", "ni"]))
    n = 0
    for k, (gs, opts) in enumerate(runs):
        for g in gs:
            g["text_noast"] = g["text"]
        bt = B.Batch(bd, "c08tc%d" % k, gs, opts, strict=False)
        try:
            bt.generate()
            with open(os.path.join(bt.dir, "go.mod"), "w") as f:
                f.write("module batch\n\ngo 1.25\n")
            for g in gs:
                for o in opts:
                    it = bt.items[(g["id"], o)]
                    r = it["resp"]
                    n += 1
                    why = None
                    if not it["generated"]:
                        why = "no output: " + str(r.get("panic") or r.get("compile_err") or r.get("parse_err"))[:300]
                    else:
                        rc, out, err = C.run(["go", "build", "./pkgs/" + it["pkg"]], cwd=bt.dir, env=C.GOENV, timeout=1200)
                        if rc == 124:
                            raise RuntimeError("type check of %s/%s did not finish within the harness limit" % (g["id"], o))
                        if rc != 0:
                            why = "the generated file does not type-check: " + (out + err)[-300:]
                        else:
                            rcf, outf, _ = C.run(["gofmt", "-l", os.path.join("pkgs", it["pkg"])], cwd=bt.dir, env=C.GOENV, timeout=600)
                            if outf.strip():
                                why = "the generated file is not in canonical gofmt form"
                    if why:
                        problems.append(("[%s] %s" % (g["id"], why), {"grammar": g["text"][:4000], "stream": g["id"], "options": B.OPTSETS[o], "why": why}))
        finally:
            bt.cleanup()
    return n


def json_key(o):
    return "".join(k[0] for k in ("inline", "switch", "noast") if o.get(k))
