"""C15: grammar diagnostics are exact and -strict turns them into failure."""
import os
import re
import shutil
import tempfile

from .. import common as C
from .. import batch as B
from .. import peglib as P

c = lambda ch: ("chr", ord(ch))
N = lambda r: ("name", r)

CORPUS = [
    [("X", ("seq", [("q", N("X")), c("a")]))],
    [("X", ("seq", [("not", N("X")), c("a")]))],
    [("X", ("alt", [("and", c("y")), ("seq", [N("X"), c("a")])]))],
    [("X", ("seq", [("star", N("Y")), c("a")])), ("Y", ("alt", [c("b"), N("X")]))],
    [("X", ("alt", [("seq", [c("a"), N("X")]), c("b")]))],
    [("X", ("seq", [N("Y"), N("Z")])), ("Y", ("q", c("a"))), ("Z", ("alt", [("seq", [N("X"), c("b")]), c("c")]))],
    [("X", c("a")), ("U1", N("U2")), ("U2", N("U1"))],
    [("X", c("a")), ("U", N("Missing"))],
    [("X", ("seq", [N("Missing1"), ("q", N("Missing2"))]))],
    [("X", ("seq", [c("a"), N("Y")])), ("Y", ("nil",))],
    [("X", ("push", ("seq", [("push", N("X")), c("a")])))],
    [("X", ("seq", [("plus", N("Y")), c("a")])), ("Y", ("alt", [("seq", [("pred", 0), N("X")]), c("b")]))],
    [("X", c("a")), ("Y", c("b")), ("X", c("c"))],
    [("X", ("seq", [N("Y"), c("a")])), ("Y", ("seq", [("act", 0), ("state", 0), N("X")]))],
    [("A", ("alt", [("seq", [("plus", N("B")), N("A"), c("x")]), c("y")])), ("B", ("q", c("b")))],
    [("A", ("alt", [("seq", [("plus", ("not", c("q"))), N("A"), c("x")]), c("y")]))],
    [("A", ("seq", [("plus", ("seq", [N("A"), c("x")])), c("y")]))],
    [("A", ("seq", [("star", ("q", c("a"))), N("A")]))],
]


class IllGen(P.GGen):
    """grammars with diagnostics: head recursion through every operator, unreachable rules and cycles,
    undefined names (also only from unreachable rules), occasionally duplicates"""

    def any(self, depth, rank, head):
        r = self.rng
        if r.random() < 0.22:
            pool = self.names + ["Undef%d" % r.randint(0, 2)] * (1 if r.random() < 0.3 else 0)
            return ("name", r.choice(pool))
        if depth > 0 and r.random() < 0.12:
            # repetition of anything, also of expressions that may match empty (the generator is only asked
            # to diagnose these grammars, the parsers are not run)
            return (r.choice(["plus", "plus", "star"]), self.any(depth - 1, rank, head))
        return super().any(depth, rank, head)

    def grammar(self):
        rules = []
        for i, nm in enumerate(self.names):
            body = self.any(self.rng.randint(1, 3), self.nrules, False)
            rules.append((nm, body))
        if self.rng.random() < 0.08 and len(rules) > 1:
            rules.append((rules[0][0], ("chr", 97)))
        return rules


def parse_warnings(stderr):
    und, unu, lr, dup = set(), set(), set(), set()
    for line in stderr.split("\n"):
        m = re.search(r"rule '([^']*)' used but not defined", line)
        if m:
            und.add(m.group(1))
        m = re.search(r"rule '([^']*)' defined but not used", line)
        if m and not re.fullmatch(r"Action\d+|PegText", m.group(1)):
            unu.add(m.group(1))
        m = re.search(r"possible infinite left recursion in rule '([^']*)'", line)
        if m:
            lr.add(m.group(1))
        m = re.search(r"rule '([^']*)' defined more than once", line)
        if m:
            dup.add(m.group(1))
    return und, unu, lr, dup


# ---- independent oracle: the property's own definitions on the python AST
def py_oracle(rules):
    bodies = {}
    for n, e in rules:
        bodies.setdefault(n, e)
    dups = {n for n in bodies if sum(1 for m, _ in rules if m == n) > 1}

    def names(e, acc):
        if e[0] == "name":
            acc.append(e[1])
        for x in e[1:]:
            if isinstance(x, tuple):
                names(x, acc)
            elif isinstance(x, list):
                for y in x:
                    if isinstance(y, tuple):
                        names(y, acc)
        return acc
    refd = set()
    for n, e in rules:
        refd |= set(names(e, []))
    und = {n for n in refd if n not in bodies}
    reach, todo = {rules[0][0]}, [rules[0][0]]
    while todo:
        x = todo.pop()
        if x in bodies:
            for y in names(bodies[x], []):
                if y not in reach:
                    reach.add(y)
                    todo.append(y)
    unu = {n for n in bodies if n not in reach}
    # nullable (least fixpoint) and head-position graph
    nullable = {n: False for n in bodies}

    def nul(e):
        t = e[0]
        if t in ("dot", "chr", "str", "istr", "cls"):
            return False
        if t == "name":
            return nullable.get(e[1], True) if e[1] in bodies else True
        if t in ("pred", "state", "act", "nil", "and", "not", "q", "star"):
            return True
        if t == "seq":
            return all(nul(x) for x in e[1])
        if t == "alt":
            return any(nul(x) for x in e[1])
        return nul(e[1])
    ch = True
    while ch:
        ch = False
        for n, e in bodies.items():
            v = nul(e)
            if v and not nullable[n]:
                nullable[n] = True
                ch = True

    def heads(e, acc):
        t = e[0]
        if t == "name":
            acc.add(e[1])
        elif t == "seq":
            for x in e[1]:
                heads(x, acc)
                if not nul(x):
                    break
        elif t == "alt":
            for x in e[1]:
                heads(x, acc)
        elif t in ("and", "not", "q", "star", "plus", "push"):
            heads(e[1], acc)
        return acc
    hg = {n: heads(e, set()) for n, e in bodies.items()}
    lrec = set()
    for n in bodies:
        seen, todo = set(), list(hg[n])
        while todo:
            x = todo.pop()
            if x in seen or x not in bodies:
                continue
            seen.add(x)
            todo += list(hg[x])
        if n in seen:
            lrec.add(n)
    return und, unu, lrec, dups


def check(ctx):
    broken = C.proof_obligations(ctx) if os.path.exists(os.path.join(C.COQ, "theories", "Properties", "C15.v")) else []
    bd = C.build_dir()
    peg = os.path.join(bd, "peg")
    if not os.path.exists(peg):
        rc, out, err = C.run(["go", "build", "-o", peg, "."], cwd=C.REPO, env=C.GOENV, timeout=600)
        if rc != 0:
            raise RuntimeError("cannot build peg: " + err[-2000:])
    model = B.Model()
    n = 200 if ctx.tier == "quick" else 3000
    grams = [("corpus%d" % i, g) for i, g in enumerate(CORPUS)]
    for i in range(n):
        if i % 3 == 2:
            gg = P.GGen(ctx.rng)        # clean (mostly) grammars
        else:
            gg = IllGen(ctx.rng)
        grams.append(("g%d" % i, gg.grammar()))
    tmp = tempfile.mkdtemp(prefix="pegdiag-")
    results = {}
    mlines = []
    try:
        for gid, rules in grams:
            text = P.grammar_text(rules)
            path = os.path.join(tmp, gid + ".peg")
            open(path, "w").write(text)
            out = {}
            for strict in (False, True):
                rc, so, se = C.run([peg] + (["-strict"] if strict else []) + ["-output", os.path.join(tmp, gid + ".go"), path], timeout=60)
                out[strict] = (rc, se)
            results[gid] = out
            sexp, ids = P.raw_model(rules)
            mlines.append("diag %s %s" % (gid, sexp))
    finally:
        shutil.rmtree(tmp, ignore_errors=True)
    rc_, out_, err_ = C.run([model.exe], input="\n".join(mlines) + "\n", timeout=300)
    mm = {}
    for line in out_.split("\n"):
        if line.startswith("diag "):
            head, rest = line.split(" :: ")
            mm[head.split(" ")[1]] = B.parse_obs(rest)
    bad, nontriv, kinds = [], set(), {"undefined": 0, "unused": 0, "leftrec": 0, "dups": 0, "clean": 0}
    for gid, rules in grams:
        sexp, ids = P.raw_model(rules)
        rev = {v: k for k, v in ids.items()}
        m = mm.get(gid)
        (rc0, se0), (rc1, se1) = results[gid][False], results[gid][True]
        und, unu, lr, dup = parse_warnings(se0)
        text = P.grammar_text(rules)
        o_und, o_unu, o_lr, o_dup = py_oracle(rules)
        if "panic" in se0 or "goroutine" in se0:
            bad.append((gid, text, "generator crashed: " + se0[:200], True))
            continue
        if m is None:
            bad.append((gid, text, "no model result", False))
            continue
        ms = lambda k: {rev[int(x)] for x in m.get(k, "").split(",") if x}
        if m.get("closed") != "1":
            bad.append((gid, text, "side condition closed_b of C15_unused_exact is false for this grammar", False))
        if o_dup:
            # a duplicate definition must be diagnosed (non-zero exit, message), not crash
            if not dup or rc0 == 0:
                bad.append((gid, text, "duplicate definition of %s not diagnosed (rc=%d, stderr=%r)" % (sorted(o_dup), rc0, se0[:120]), True))
            if ms("dups") != o_dup:
                bad.append((gid, text, "model duplicates %s, expected %s" % (ms("dups"), o_dup), False))
            kinds["dups"] += 1
            nontriv.add(text)
            continue
        for kind, got, mod, orc in (("undefined", und, ms("undefined"), o_und), ("unused", unu, ms("unused"), o_unu)):
            if got != orc:
                bad.append((gid, text, "'%s' diagnostics name %s, the grammar's %s names are %s" % (kind, sorted(got), kind, sorted(orc)), True))
            elif got != mod:
                bad.append((gid, text, "'%s': implementation %s, model %s" % (kind, sorted(got), sorted(mod)), False))
        # left recursion: a warning is issued iff some rule is left recursive; the model mirrors the names too
        if bool(lr) != bool(o_lr):
            bad.append((gid, text, "left recursion warned for %s, left-recursive rules are %s" % (sorted(lr), sorted(o_lr)), True))
        elif lr != ms("leftrec"):
            bad.append((gid, text, "left recursion: implementation names %s, model names %s" % (sorted(lr), sorted(ms("leftrec"))), False))
        anyd = bool(und or unu or lr)
        if anyd and rc1 == 0:
            bad.append((gid, text, "-strict exits 0 although diagnostics were issued", True))
        if (not anyd) and (rc0 != 0 or rc1 != 0 or se0.strip() or se1.strip()):
            bad.append((gid, text, "no diagnostic expected but rc=%d/%d stderr=%r" % (rc0, rc1, (se0 + se1)[:120]), True))
        if anyd and rc0 != 0:
            bad.append((gid, text, "warnings without -strict must not fail generation (rc=%d)" % rc0, True))
        for k, v in (("undefined", und), ("unused", unu), ("leftrec", lr)):
            if v:
                kinds[k] += 1
        if not anyd:
            kinds["clean"] += 1
        if anyd:
            nontriv.add(text)
    rep = 0
    bad.sort(key=lambda b: (not b[3], len(b[1])))
    for gid, text, why, found in bad:
        if ctx.known("diag:" + text):
            ctx.known_lines.append("KNOWN-FINDING: property=C15 %s" % ctx.known("diag:" + text)["what"])
            continue
        if rep >= 5:
            break
        rep += 1
        ctx.violation(why, {"grammar": text, "why": why, "stderr": results[gid][False][1][:500], "model": mm.get(gid),
                            "broken": None if found else "correspondence Analyses.v ~ tree/peg.go diagnostics"}, found=found)
    if broken and not ctx.violations:
        ctx.violation("proof obligation for C15 no longer checks: " + broken[0][:200], {"broken": broken}, found=False)
    ctx.coverage.update({
        "evaluations": len(grams) * 2, "distinct_nontrivial": len(nontriv),
        "rule": "corpus + random grammars with names in head positions under every operator, unreachable rules and cycles, undefined names, occasional duplicate definitions, and clean grammars; the real peg binary is run with and without -strict; warning sets (by kind and rule name) and exit status are compared with Model/Analyses.v and with an independent oracle (reachability, least-fixpoint nullability, head-position cycles); non-trivial = grammar with at least one diagnostic",
        "kinds": kinds, "mismatches": len(bad),
        "samples": [{"grammar": t.split("}\n", 1)[-1].strip()[:300], "stderr": results[g][False][1][:200]} for g, t in [(grams[0][0], P.grammar_text(grams[0][1])), (grams[20][0], P.grammar_text(grams[20][1]))]],
    })
