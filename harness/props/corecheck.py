"""Checks that share the core correspondence batch (C01, C03, C04, C05, C06, C11, C12, C13, C02, C07)."""
import collections

from .. import common as C
from .. import core
from .. import batch as B

SPEC = {
    # pid: (option sets, impl-vs-model aspects, model-vs-spec aspects, case kinds)
    "C01": (("d",), {"verdict", "pos", "missing", "timeout"}, {"spec-verdict", "spec-pos"}, {"fresh", "entry"}),
    "C03": (("d",), {"tokens", "badtoken"}, {"spec-tokens"}, {"fresh", "entry"}),
    "C04": (("d",), {"trace"}, {"spec-trace"}, {"fresh", "entry"}),
    "C05": (("d",), {"ast", "print"}, set(), {"fresh", "entry"}),
    "C06": (("d",), {"verdict", "pos", "tokens", "errtoken"}, {"spec-verdict", "spec-tokens", "spec-errtoken"}, {"fresh"}),
    "C11": (("d",), {"verdict", "errtoken", "errpos", "errtext", "errmsg"}, {"spec-errtoken"}, {"fresh", "entry"}),
    "C12": (("d",), {"verdict", "pos", "tokens", "trace", "ast", "print", "errtoken", "errpos", "errtext", "errmsg", "missing"}, set(), {"history"}),
    "C13": (("d", "i", "s", "is"), {"verdict", "badtoken", "timeout", "missing", "errmsg"}, set(), {"fresh", "entry", "history"}),
    "C02": (("d", "i", "s", "is"), {"verdict", "pos", "tokens", "missing", "timeout"}, {"spec-verdict", "spec-pos", "spec-tokens"}, {"fresh"}),
    "C07": (("n", "ni", "ns", "nis"), {"verdict", "alog", "missing", "timeout"}, {"spec-verdict"}, {"fresh"}),
}

NONTRIVIAL = {
    "C01": "accepted and rejected inputs both count; a case is non-trivial when the grammar has >= 2 rules or a choice/repetition/lookahead and the input is non-empty",
}


def impl_step(rec, k=0):
    if not rec.get("impl") or k >= len(rec["impl"]):
        return {}
    return B.parse_obs(rec["impl"][k])


def key_fields(o):
    """the observables two implementation runs must share"""
    if o.get("st") == "0":
        return ("0", o.get("pos"), o.get("toks"), o.get("trace"), o.get("walk"), o.get("tree"), o.get("alog"))
    if o.get("st") == "1":
        return ("1", o.get("max"), o.get("msg"))
    return (o.get("st"),)


def message_ok(inp, im):
    """independent check of Error(): 1-based line/column of begin and end, exact quoted text"""
    runes = B.runes_of(inp)
    try:
        r_, b_, e_ = im["max"].split(":")
        b_, e_ = int(b_), int(e_)
        msg = bytes.fromhex(im.get("msg", "")).decode("utf-8", errors="replace")
        m = core.MSG_RE.match(msg)
        if not m:
            return False

        def lc(i):
            line = 1 + runes[:i].count(10)
            start = 0
            for k in range(i - 1, -1, -1):
                if runes[k] == 10:
                    start = k + 1
                    break
            return str(line), str(1 + i - start)
        if (m.group(2), m.group(3)) != lc(b_) or (m.group(4), m.group(5)) != lc(e_):
            return False
        return core.gounquote(m.group(6)) == runes[b_:e_]
    except Exception:
        return False


def width_stream(ctx):
    """deeply nested unit rules: 16 tokens per rune; inputs that fit uint8 / uint16 while the token count does not.
    Two grammars: a repetition that never backtracks, and an ordered choice whose second alternative re-enters the
    repetition at offset 0 after the first has failed at the very end - every rule call of the second pass is a memo
    hit that replays tokens recorded beyond token index 65535 (memoisation x width)."""
    chain = "".join("A%d <- A%d\n" % (i, i + 1) for i in range(1, 16)) + "A16 <- 'a' / 'b'\n"
    hdr = "package parser\n\ntype Parser Peg {\n T []string\n N int\n}\n"
    grammars = [("w", hdr + "S <- A1* !.\n" + chain + "\n",
                 [(["ab" * 5, "a" * 20, "ab" * 30 + "c", "b" * 100], ["uint8", "uint16", "uint32", "uint64", "uint"]),
                  (["a" * 4100, "ab" * 2100 + "c"], ["uint16", "uint32", "uint64"])]),
                ("wb", hdr + "S <- A1* 'x' !. / A1* 'y' !.\n" + chain + "\n",
                 [(["ab" * 5 + "y", "a" * 20 + "x", "ab" * 30 + "c", "b" * 100 + "y"], ["uint8", "uint16", "uint32", "uint64", "uint"]),
                  (["a" * 4100 + "y", "ab" * 2100 + "cy", "ba" * 2200 + "y"], ["uint16", "uint32", "uint64"])])]
    out = []
    for gid, text, plans in grammars:
        bd = C.build_dir()
        bt = B.Batch(bd, "width" + gid, [dict(id=gid, text=text, text_noast=text)], ["d"], strict=False).generate().build()
        try:
            for inputs, widths in plans:
                res = {}
                for wd in widths:
                    r = bt.run_impl([("c", (gid, "d"), -1, True, -1, wd, inputs)])
                    res[wd] = [key_fields(B.parse_obs(x)) for x in (r.get("c") or [])]
                ref = res[widths[-1]]
                for wd in widths[:-1]:
                    if res[wd] != ref:
                        k = next((i for i, (a, b) in enumerate(zip(res[wd], ref)) if a != b), 0)
                        got = res[wd][k] if k < len(res[wd]) else ("missing",)
                        out.append(("instantiated with %s the parser gives %s on an input of %d runes, with %s it gives %s" % (
                            wd, str(got[:2])[:120], len(inputs[k]) if k < len(inputs) else -1, widths[-1], str(ref[k][:2])[:80] if k < len(ref) else "?"),
                            {"grammar": text, "options": B.OPTSETS["d"], "inputs": inputs[:k + 1], "width": wd, "reference_width": widths[-1]}))
        finally:
            bt.cleanup()
    return out


def check(ctx):
    pid = ctx.pid
    opts, aspects, saspects, kinds = SPEC[pid]
    broken = C.proof_obligations(ctx)
    data = core.run_core(ctx)
    cases = [r for r in data["cases"] if r["o"] in opts and r["kind"] in kinds]
    if pid == "C06":
        cases = [r for r in data["cases"] if r["o"] == "d" and r["kind"] == "fresh"]
    n_eval = 0
    diffs = []          # (rec, aspect, detail, found)
    nontriv = set()
    by = {}
    for r in data["cases"]:
        by[r["cid"]] = r
    for rec in cases:
        gi = data["grammars"][rec["g"]]
        n_eval += 1
        im0 = impl_step(rec)
        for a, d in core.compare_case(rec, gi):
            if a in aspects or a == "fuel":
                if a == "fuel":
                    continue
                diffs.append((rec, a, d, None))
        for a, d in core.compare_spec(rec):
            if a in saspects:
                diffs.append((rec, a, d, None))
        # distinct non-trivial cases
        sp = B.parse_obs(rec.get("spec") or "")
        if pid in ("C01", "C13"):
            if rec["inputs"][0] != "" and im0.get("st") in ("0", "1"):
                nontriv.add((rec["g"], rec["inputs"][0], rec.get("entry"), im0.get("st")))
        elif pid in ("C03", "C05"):
            if im0.get("st") == "0" and im0.get("toks", "").count(",") >= 2:
                nontriv.add((rec["g"], rec["inputs"][0], rec.get("entry")))
        elif pid == "C04":
            if im0.get("st") == "0" and im0.get("trace"):
                nontriv.add((rec["g"], rec["inputs"][0], rec.get("entry")))
        elif pid == "C06":
            if int(sp.get("dup", "0") or 0) > 0 and rec["memo"]:
                nontriv.add((rec["g"], rec["inputs"][0]))
        elif pid == "C11":
            if im0.get("st") == "1" and im0.get("max") not in (None, "-1:0:0", "0:0:0"):
                nontriv.add((rec["g"], rec["inputs"][0], rec.get("entry")))
        elif pid == "C12":
            sts = [B.parse_obs(x).get("st") for x in (rec.get("impl") or [])]
            if "0" in sts and "1" in sts:
                nontriv.add((rec["g"], rec["cid"]))
        elif pid in ("C02", "C07"):
            if rec["o"] != opts[0] and rec["inputs"][0] != "":
                nontriv.add((rec["g"], rec["o"], rec["inputs"][0]))
    # property-specific implementation-only oracles (need no model)
    if pid == "C06":
        for rec in cases:
            if rec["memo"]:
                other = by.get(rec["cid"][:-1] + "0")
                if other and rec.get("impl") and other.get("impl"):
                    a, b = key_fields(impl_step(rec)), key_fields(impl_step(other))
                    if a != b:
                        diffs.append((rec, "memo-vs-nomemo", "with memo %s, DisableMemoize %s" % (a[:3], b[:3]), True))
        # and on a reused parser: the same history with and without memoisation, step by step
        for rec in data["cases"]:
            if rec["kind"] == "history-nomemo" and rec["o"] == "d":
                other = by.get(rec["cid"][:-2] + "h0")
                if other and rec.get("impl") and other.get("impl"):
                    n_eval += 1
                    for k in range(min(len(rec["impl"]), len(other["impl"]))):
                        a, b = key_fields(impl_step(other, k)), key_fields(impl_step(rec, k))
                        if a != b:
                            diffs.append((other, "memo-vs-nomemo", "reused parser, step %d input %r: with memo %s, DisableMemoize %s" % (k, rec["inputs"][k], a[:3], b[:3]), True))
                            break
                    for a_, d_ in core.compare_case(rec, data["grammars"][rec["g"]]):
                        if a_ in aspects:
                            diffs.append((rec, a_, d_, None))
    if pid == "C12":
        fresh = {}
        for r in data["cases"]:
            if r["kind"] == "fresh" and r["o"] == "d" and r["memo"]:
                fresh[(r["g"], r["inputs"][0])] = r
        for rec in cases:
            for k, inp in enumerate(rec["inputs"]):
                f = fresh.get((rec["g"], inp))
                if f and rec.get("impl") and f.get("impl") and k < len(rec["impl"]):
                    a, b = key_fields(impl_step(rec, k)), key_fields(impl_step(f))
                    if a != b:
                        diffs.append((rec, "reuse-vs-fresh", "step %d input %r: reused %s fresh %s (Size=%s U=%s)" % (k, inp, a[:3], b[:3], rec.get("size"), rec.get("width")), True))
    if pid == "C05":
        # WriteSyntaxTree and PrintSyntaxTree (plain and Pretty, colour codes removed) must print what SprintSyntaxTree returns
        for rec in data["cases"]:
            if rec["kind"] == "history-printers" and rec["o"] == "d" and rec.get("impl"):
                n_eval += 1
                for k, x in enumerate(rec["impl"]):
                    o_ = B.parse_obs(x)
                    if o_.get("st") == "0" and o_.get("pr") not in (None, "111"):
                        which = [nm for nm, f in zip(("WriteSyntaxTree", "PrintSyntaxTree", "PrintSyntaxTree with Pretty"), o_.get("pr", "")) if f == "0"]
                        diffs.append((rec, "printers", "step %d input %r: %s prints another tree than SprintSyntaxTree" % (k, rec["inputs"][k], ", ".join(which)), True))
                        break
    if pid == "C12":
        # the instantiation must not matter as long as the input fits U: grammars that record many tokens per rune
        # (token count exceeds what U can count although every offset fits)
        for why, replay in width_stream(ctx):
            wrec = dict(g=None, o="d", inputs=replay["inputs"], kind="width", cid="width", impl=None, model=None, spec=None)
            ctx.violation(why, replay, found=True)
        n_eval += 8
    if pid in ("C02", "C07"):
        base = {}
        for r in data["cases"]:
            if r["kind"] == "fresh" and r["o"] == "d" and r["memo"]:
                base[(r["g"], r["inputs"][0])] = r
        for rec in cases:
            if rec["o"] == "d":
                continue
            f = base.get((rec["g"], rec["inputs"][0]))
            if f and rec.get("impl") and f.get("impl"):
                a, b = impl_step(rec), impl_step(f)
                if pid == "C02":
                    ka, kb = (a.get("st"), a.get("pos"), a.get("toks")) if a.get("st") == "0" else (a.get("st"),), \
                             (b.get("st"), b.get("pos"), b.get("toks")) if b.get("st") == "0" else (b.get("st"),)
                else:
                    ka, kb = (a.get("st"),), (b.get("st"),)
                if ka != kb:
                    diffs.append((rec, "options-differ", "option set %s gives %s, default gives %s" % (rec["o"], ka, kb), True))
    # decide found / not found for correspondence diffs: does the implementation contradict the
    # reference semantics (or, for message fields, an independent computation in the harness)?
    for i, (rec, a, d, found) in enumerate(diffs):
        if found is None:
            sp = B.parse_obs(rec.get("spec") or "")
            im = impl_step(rec)
            f = False
            if not rec["kind"].startswith("history"):
                if sp.get("res") == "S" and (im.get("st") != "0" or im.get("pos") != sp.get("pos") or im.get("toks", "") != sp.get("toks", "")):
                    f = B.OPTSETS[rec["o"]]["noast"] is False or im.get("st") != "0"
                if sp.get("res") == "F" and im.get("st") != "1":
                    f = True
                if sp.get("res") == "F" and im.get("st") == "1" and a == "errtoken" and im.get("max") != sp.get("ff"):
                    f = True
            if a in ("badtoken", "timeout") or im.get("st") == "2":
                f = True
            if a in ("trace", "ast", "print") and not rec["kind"].startswith("history") and sp.get("res") == "S" and im.get("toks", "") == sp.get("toks", ""):
                f = True      # tokens are right, what Execute / AST / the printer derive from them is not
            if a in ("errmsg", "errpos", "errtext") and im.get("st") == "1":
                f = not message_ok(rec["inputs"][0], im)
            if a == "alog" and not rec["kind"].startswith("history") and sp.get("res") in ("S", "F") and "alog" in sp:
                # the inline action log against the reference semantics alone: Execute's loop over every event of the attempt
                oi_ = data["grammars"][rec["g"]]["opts"][rec["o"]]
                runes_ = B.runes_of(rec["inputs"][0])
                exp_ = []
                for x in [y for y in sp.get("alog", "").split(",") if y]:
                    k_, b_, e_ = x.split(":")
                    exp_.append("%s:%s" % (oi_.get("actmap", {}).get(k_, "?"), "".join(chr(c) for c in runes_[int(b_):int(e_)]).encode("utf-8", errors="surrogatepass").hex()))
                ial_ = [y for y in im.get("alog", "").split(",") if y]
                if (sp.get("res") == "S") == (im.get("st") == "0") and ial_ != exp_:
                    f = True
            if a.startswith("spec-"):
                f = False
            diffs[i] = (rec, a, d, f)
    # generation problems inside the property's option sets
    gen_problems = []
    for gid, gi in data["grammars"].items():
        for o in opts:
            oi = gi["opts"][o]
            if oi.get("panic"):
                gen_problems.append((gid, o, "generator panicked: " + oi["panic"][:200]))
            elif pid in ("C02", "C07") and not oi.get("compiles") and gi["opts"]["d"].get("compiles"):
                why = oi.get("compile_err") or oi.get("build_error") or oi.get("conv_err") or "?"
                gen_problems.append((gid, o, "no runnable parser under this option set: " + why[:200]))
    # the -switch pass itself (structural tie, needs no input): model rewrite of the default tree vs the implementation's tree
    if pid == "C02":
        for gid, gi in data["grammars"].items():
            for a, d in core.compare_optimizer(gi):
                rec = dict(g=gid, o="s", inputs=[""], kind="gen", cid="%s/s/opt" % gid, impl=gi["opts"]["s"].get("model"), model=gi["opts"]["d"].get("opt"), spec=None)
                diffs.append((rec, a, d, False))
    # Compile's first passes (structural tie, needs no input): Model/Link.v applied to the raw rule tree must give
    # the linked tree the generator compiles, with the same action numbering and PegText slot
    if pid == "C04":
        nlink = 0
        for gid, gi in data["grammars"].items():
            oi = gi["opts"].get("d", {})
            if oi.get("link") is None or oi.get("link_want") is None:
                continue
            nlink += 1
            if oi["link"] != oi["link_want"]:
                rec = dict(g=gid, o="d", inputs=[""], kind="gen", cid="%s/d/link" % gid, impl=oi["link_want"], model=oi["link"], spec=None)
                diffs.append((rec, "link", "the linked tree (rule slots, references, action numbers, PegText slot) differs from Model/Link.v applied to the raw tree: implementation %s, model %s" % (oi["link_want"][:160], oi["link"][:160]), False))
        ctx.coverage["link_compared"] = nlink
    # generator decisions (structural tie): C01 owns always-succeeds and nil slots, C02 inlining
    if pid in ("C01", "C02"):
        for gid, gi in data["grammars"].items():
            for o in opts:
                for a, d in core.compare_decisions(gi, o):
                    rec = dict(g=gid, o=o, inputs=[""], kind="gen", cid="%s/%s/gen" % (gid, o), impl=None, model=gi["opts"][o].get("gen"), spec=None)
                    diffs.append((rec, a, d, False))
    # statement-level tie (C01_generated_code_is_peg speaks about Model/SEmit.v's statements): every rule function of
    # every generated file, statement by statement, against semit_all; and the theorem's side condition per grammar
    if pid == "C01":
        st_cmp, st_deep, st_notdeep = 0, 0, []
        st_prem, st_noprem, st_contra = 0, [], []
        for gid, gi in data["grammars"].items():
            for o, oi in gi["opts"].items():
                if oi.get("semit") is None or oi.get("stmts") is None or oi.get("conv_err"):
                    continue
                st_cmp += 1
                if oi.get("deep"):
                    st_deep += 1
                else:
                    st_notdeep.append("%s/%s" % (gid, o))
                # the premises under which the side condition is a theorem (C01_side_condition_always_holds)
                if oi.get("alt2") and oi.get("closed"):
                    st_prem += 1
                    if not oi.get("deep"):
                        st_contra.append("%s/%s" % (gid, o))
                else:
                    st_noprem.append("%s/%s alt2=%d closed=%d" % (gid, o, bool(oi.get("alt2")), bool(oi.get("closed"))))
                if oi["semit"] != oi["stmts"]:
                    ms, ks = oi["semit"].split(";"), oi["stmts"].split(";")
                    k = next((i for i, (a, b) in enumerate(zip(ms, ks)) if a != b), min(len(ms), len(ks)))
                    nm = (oi.get("names") or [])[k] if k < len(oi.get("names") or []) else k
                    ma, ka = (ms[k] if k < len(ms) else "-").split(","), (ks[k] if k < len(ks) else "-").split(",")
                    j = next((i for i, (a, b) in enumerate(zip(ma, ka)) if a != b), min(len(ma), len(ka)))
                    d = "the statements emitted for rule %s differ from Model/SEmit.v at statement %d: emitted ..%s, model ..%s" % (
                        nm, j, ",".join(ka[max(0, j - 3):j + 4])[:120], ",".join(ma[max(0, j - 3):j + 4])[:120])
                    rec = dict(g=gid, o=o, inputs=[""], kind="gen", cid="%s/%s/semit" % (gid, o), impl=None, model=None, spec=None)
                    diffs.append((rec, "statements", d, False))
        ctx.coverage["statement_level"] = {"files_compared": st_cmp, "side_condition_deep_table_b_true": st_deep,
                                           "side_condition_false": st_notdeep[:10],
                                           "premises_alt2_and_closed_names_true": st_prem,
                                           "premises_false": st_noprem[:10],
                                           "premises_true_but_side_condition_false": st_contra[:10]}
    # side conditions of the theorems, re-evaluated by the extracted checkers for every grammar / option set used
    for gid, gi in data["grammars"].items():
        for o in opts:
            gen = B.parse_obs(gi["opts"][o].get("gen") or "")
            if gen and (gen.get("good") != "1" or gen.get("swok") != "1"):
                rec = dict(g=gid, o=o, inputs=[""], kind="gen", cid="%s/%s/side" % (gid, o), impl=None, model=gi["opts"][o].get("gen"), spec=None)
                diffs.append((rec, "side-condition", "good_grammar=%s good_switches=%s for the tree compiled under option set %s" % (gen.get("good"), gen.get("swok"), o), False))
    reported = 0
    seen_keys = set()
    diffs.sort(key=lambda x: (x[1] in ("missing", "timeout"), not x[3], len(data["grammars"][x[0]["g"]]["text"]) if x[0]["g"] in data["grammars"] else 0, len(x[0]["inputs"][0])))
    for rec, a, d, found in diffs:
        key = "core:%s:%s:%s" % (rec["g"] if not rec["g"].startswith("g") else data["grammars"][rec["g"]]["text"], rec["o"], a)
        kf = ctx.known("core:%s|%s|%s" % (data["grammars"][rec["g"]]["text"], rec["o"], rec["inputs"][0]))
        if kf:
            line = "KNOWN-FINDING: property=%s %s" % (pid, kf["what"])
            if line not in ctx.known_lines:
                ctx.known_lines.append(line)
            continue
        if (rec["g"], rec["o"], a) in seen_keys or reported >= 6:
            continue
        seen_keys.add((rec["g"], rec["o"], a))
        reported += 1
        gi = data["grammars"][rec["g"]]
        ctx.violation("%s: %s" % (a, d[:200]),
                      {"grammar": gi["text"], "options": B.OPTSETS[rec["o"]], "inputs": rec["inputs"], "entry_rule": rec.get("entry"),
                       "memo": rec.get("memo"), "aspect": a, "detail": d, "implementation": rec.get("impl"), "model": rec.get("model"),
                       "spec": rec.get("spec"), "broken": None if found else "correspondence Model/Machine.v ~ generated parser (%s)" % a},
                      found=bool(found))
    for gid, o, why in gen_problems:
        gi = data["grammars"][gid]
        kf = ctx.known("gen:%s|%s" % (gi["text"], o))
        if kf:
            line = "KNOWN-FINDING: property=%s %s" % (pid, kf["what"])
            if line not in ctx.known_lines:
                ctx.known_lines.append(line)
            continue
        if reported >= 8:
            break
        reported += 1
        ctx.violation(why, {"grammar": gi["text"], "options": B.OPTSETS[o], "why": why}, found=True)
    if data.get("model_errors"):
        ctx.violation("model driver reported errors: %s" % data["model_errors"][:2], {"broken": "model driver", "errors": data["model_errors"]}, found=False)
    if broken and not ctx.violations:
        ctx.violation("proof obligation for %s no longer checks: %s" % (pid, broken[0][:200]),
                      {"broken": broken, "theorems": ctx.coverage.get("theorems")}, found=False)
    dist = collections.Counter()
    for rec in cases:
        dist[impl_step(rec).get("st", "?")] += 1
    samples = []
    for rec in cases[:: max(1, len(cases) // 3)][:3]:
        samples.append({"grammar": data["grammars"][rec["g"]]["text"].split("}\n", 1)[-1].strip()[:300], "options": rec["o"],
                        "inputs": rec["inputs"][:3], "entry": rec.get("entry"), "implementation": (rec.get("impl") or [""])[0][:200]})
    wfc = collections.Counter()
    for gid, gi in data["grammars"].items():
        gen = B.parse_obs(gi["opts"].get("d", {}).get("gen") or "")
        wfc["wf" if gen.get("wf") == "1" else "not-wf-or-unknown"] += 1
        wfc["good" if gen.get("good") == "1" else "not-good"] += 1
        if pid in ("C02", "C07") and gi["opts"].get("d", {}).get("opt"):
            # premise of C02_switch_invisible / C07_noast_switch_language: consistent first-set table
            wfc["opt_ok" if "optok=1" in gi["opts"]["d"]["opt"].split(" ", 1)[0] else "opt_not_ok"] += 1
            if gen.get("wf") == "1" and "optok=1" in gi["opts"]["d"]["opt"].split(" ", 1)[0]:
                wfc["wf_and_opt_ok"] += 1
    ctx.coverage.update({
        "grammars_well_formed": dict(wfc),
        "evaluations": n_eval,
        "distinct_nontrivial": len(nontriv),
        "rule": "random + corpus grammars (every operator; captures/actions inside failing branches and lookahead), each generated by the peg built from /repo under the option sets %s, compiled, and run on short inputs over {a,b,c,d}+specials; every case is also run on the extracted model (machine and reference semantics) and compared observable by observable (%s); non-trivial: see harness/props/corecheck.py (%s)" % (",".join(opts), ",".join(sorted(aspects | saspects)), pid),
        "grammars": len(data["grammars"]),
        "verdict_distribution": dict(dist),
        "correspondence_diffs": len(diffs),
        "samples": samples,
    })
