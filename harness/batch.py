"""Build and run a batch of generated parsers (implementation side) and the model on the same cases."""
import hashlib
import json
import os
import re
import shutil

from . import common as C
from . import peglib as P

OPTSETS = {
    "d": dict(inline=False, switch=False, noast=False),
    "i": dict(inline=True, switch=False, noast=False),
    "s": dict(inline=False, switch=True, noast=False),
    "is": dict(inline=True, switch=True, noast=False),
    "n": dict(inline=False, switch=False, noast=True),
    "ni": dict(inline=True, switch=False, noast=True),
    "ns": dict(inline=False, switch=True, noast=True),
    "nis": dict(inline=True, switch=True, noast=True),
}


def tool(bd, name):
    """build (once per tree) one of the harness Go tools"""
    h = hashlib.sha256()
    src = os.path.join(C.VERIF, "harness", "go", name)
    for root, _, fs in sorted(os.walk(src)):
        for f in sorted(fs):
            h.update(open(os.path.join(root, f), "rb").read())
    exe = os.path.join(bd, "%s-%s" % (name, h.hexdigest()[:10]))        # rebuilt when the tool's source changes
    if os.path.exists(exe):
        return exe
    with C.Lock("gotools"):
        if os.path.exists(exe):
            return exe
        g = C.go_module(bd)
        if name == "frontdump":
            shutil.copy(os.path.join(C.REPO, "peg.peg.go"), os.path.join(g, "frontdump", "peg.peg.go"))
        rc, out, err = C.go_build(bd, "./" + name, exe)
        if rc != 0:
            raise RuntimeError("cannot build %s against %s:\n%s" % (name, C.REPO, err[-3000:]))
    return exe


def frontdump(bd, reqs, timeout=600):
    """run frontdump over requests; survives a crash of the process (the request in flight is reported as crashed)"""
    exe = tool(bd, "frontdump")
    res = {}
    todo = list(reqs)
    while todo:
        inp = "".join(json.dumps(r) + "\n" for r in todo)
        rc, out, err = C.run([exe], input=inp, timeout=timeout)
        cur = None
        done = set()
        for line in out.split("\n"):
            if line.startswith("BEGIN "):
                cur = line[6:]
            elif line.startswith("RESP "):
                r = json.loads(line[5:])
                res[r["id"]] = r
                done.add(r["id"])
                cur = None
        if cur is not None and cur not in done:
            res[cur] = {"id": cur, "panic": "process died (rc=%s): %s" % (rc, err[-1500:])}
            done.add(cur)
        todo = [r for r in todo if r["id"] not in done]
        if not done:
            for r in todo:
                res[r["id"]] = {"id": r["id"], "panic": "frontdump produced no output rc=%s %s" % (rc, err[-500:])}
            break
    return res


class Batch:
    """grammars: list of dict(id, rules=[(name, expr)]) ; opts: list of optset keys"""

    def __init__(self, bd, tag, grammars, opts, strict=True):
        self.bd, self.tag, self.grammars, self.opts = bd, tag, grammars, opts
        self.dir = os.path.join(bd, "batch-" + tag)
        if os.path.isdir(self.dir):
            shutil.rmtree(self.dir)
        os.makedirs(os.path.join(self.dir, "pkgs"))
        self.items = {}     # (gid, opt) -> dict(resp, pkgidx, ok, model, ...)
        self.strict = strict
        self.build_errors = {}

    def generate(self):
        reqs = []
        n = 0
        for g in self.grammars:
            for o in self.opts:
                os_ = OPTSETS[o]
                n += 1
                pk = "p%d" % n
                d = os.path.join(self.dir, "pkgs", pk)
                os.makedirs(d)
                text = g.get("text_noast" if os_["noast"] else "text") or P.grammar_text(g["rules"], noast=os_["noast"])
                rid = "%s/%s" % (g["id"], o)
                reqs.append(dict(id=rid, text=text, out=os.path.join(d, "parser.go"), strict=self.strict,
                                 args=["peg"] + [x for x, y in (("-inline", os_["inline"]), ("-switch", os_["switch"]), ("-noast", os_["noast"])) if y] + ["grammar.peg"],
                                 **os_))
                self.items[(g["id"], o)] = dict(pkg=pk, idx=n, text=text, noast=os_["noast"], g=g, opt=o)
        res = frontdump(self.bd, reqs)
        for (gid, o), it in self.items.items():
            r = res.get("%s/%s" % (gid, o), {"panic": "no response"})
            it["resp"] = r
            it["generated"] = os.path.exists(os.path.join(self.dir, "pkgs", it["pkg"], "parser.go")) and not r.get("panic") \
                and not r.get("compile_err") and not r.get("parse_err")
        return self

    def build(self, race=False):
        """compile every generated parser (own package each) + one dispatcher binary"""
        pk_dir = os.path.join(self.dir, "pkgs")
        with open(os.path.join(self.dir, "go.mod"), "w") as f:
            f.write("module batch\n\ngo 1.25\n")
        good = []
        for key, it in self.items.items():
            d = os.path.join(pk_dir, it["pkg"])
            if not it["generated"]:
                shutil.rmtree(d, ignore_errors=True)
                continue
            src = open(os.path.join(d, "parser.go"), encoding="utf-8", errors="replace").read()
            tmpl = open(os.path.join(C.VERIF, "harness", "gotmpl", "runner_noast.go.txt" if it["noast"] else "runner_ast.go.txt")).read()
            tmpl = tmpl.replace("VEXEC", "p.Execute()" if "[_]) Execute()" in src else "")
            with open(os.path.join(d, "runner.go"), "w") as f:
                f.write(tmpl)
            good.append(key)
        # per-package compile check first, so that one invalid output does not hide the others
        rc, out, err = C.run(["go", "build", "./pkgs/..."], cwd=self.dir, env=C.GOENV, timeout=2400)
        bad = set()
        if rc == 124:
            raise RuntimeError("go build of the batch did not finish within its time limit (a harness limit, not a verdict on the generated code)")
        if rc != 0:
            cur = None
            for line in (out + err).split("\n"):
                m = re.match(r"# batch/pkgs/(p\d+)", line)
                if m:
                    cur = m.group(1)
                    bad.add(cur)
                    self.build_errors[cur] = ""
                elif cur and line.strip():
                    self.build_errors[cur] += line + "\n"
                m2 = re.match(r"pkgs/(p\d+)/", line)
                if m2 and m2.group(1) not in bad:
                    bad.add(m2.group(1))
                    self.build_errors[m2.group(1)] = line + "\n"
            if not bad:
                raise RuntimeError("go build of the batch failed without a per-package diagnosis:\n" + (out + err)[-3000:])
        # gofmt canonical form and go vet (type check), per generated file
        self.fmt_bad, self.vet_bad = set(), {}
        rcf, outf, errf = C.run(["gofmt", "-l", "pkgs"], cwd=self.dir, env=C.GOENV, timeout=600)
        for line in outf.split("\n"):
            m = re.match(r"pkgs/(p\d+)/parser\.go", line.strip())
            if m:
                self.fmt_bad.add(m.group(1))
        if getattr(self, "want_vet", False):
            rcv, outv, errv = C.run(["go", "vet", "./pkgs/..."], cwd=self.dir, env=C.GOENV, timeout=900)
            for line in (outv + errv).split("\n"):
                m = re.match(r"(?:vet: )?(?:\./)?pkgs/(p\d+)/parser\.go:(.*)", line.strip())
                if m:
                    self.vet_bad.setdefault(m.group(1), m.group(2)[:200])
        imports, table = [], []
        for key in good:
            it = self.items[key]
            it["compiles"] = it["pkg"] not in bad
            it["gofmt_clean"] = it["pkg"] not in self.fmt_bad
            it["vet_error"] = self.vet_bad.get(it["pkg"])
            if it["compiles"]:
                imports.append('\t%s "batch/pkgs/%s"' % (it["pkg"], it["pkg"]))
                table.append("\t%d: {%s.VRun, %s.VNil}," % (it["idx"], it["pkg"], it["pkg"]))
            else:
                it["build_error"] = self.build_errors.get(it["pkg"], "")
        main = open(os.path.join(C.VERIF, "harness", "gotmpl", "dispatch_main.go.txt")).read()
        main = main.replace("VIMPORTS", "\n".join(imports)).replace("VTABLE", "\n".join(table))
        os.makedirs(os.path.join(self.dir, "cmd"), exist_ok=True)
        with open(os.path.join(self.dir, "cmd", "main.go"), "w") as f:
            f.write(main)
        self.exe = os.path.join(self.dir, "runner")
        rc, out, err = C.run(["go", "build"] + (["-race"] if race else []) + ["-o", self.exe, "./cmd"], cwd=self.dir, env=C.GOENV, timeout=1500)
        if rc != 0:
            raise RuntimeError("dispatcher build failed:\n" + (out + err)[-3000:])
        return self

    def run_impl(self, reqs, timeout=900):
        """reqs: list of (cid, key, entry, memo, size, width, [inputs as str/bytes]) -> {cid: [obs str,...]}"""
        lines = []
        for cid, key, entry, memo, size, width, inputs in reqs:
            it = self.items[key]
            hx = ";".join((i.encode("utf-8", errors="surrogatepass") if isinstance(i, str) else i).hex() for i in inputs)
            lines.append("%s %d %d %d %d %s %s" % (cid, it["idx"], entry, 1 if memo else 0, size, width, hx))
        res = {}
        todo = list(zip([r[0] for r in reqs], lines))
        restarts = 0
        while todo:
            rc, out, err = C.run(["bash", "-c", "ulimit -v 8000000; exec " + self.exe], input="\n".join(l for _, l in todo) + "\n", timeout=timeout)
            cur = None
            for line in out.split("\n"):
                if line.startswith("begin "):
                    cur = line[6:].strip()
                elif line.startswith("res "):
                    parts = line.split(" ", 2)
                    if len(parts) == 3:
                        res[parts[1]] = parts[2].split(" | ")
                    cur = None
            self.last_rc, self.last_err = rc, err[-2000:]
            if cur is not None and cur not in res:
                # the process died while serving this request (fatal error such as stack overflow)
                res[cur] = ["st=2 panic=" + ("process died: " + err[-300:]).encode().hex()]
            # a package that ran away (timeout / fatal error) is not asked again in this batch
            bad_pkgs = set()
            for c, l in todo:
                r0 = res.get(c)
                if r0 and (r0[0].startswith("st=3") or "process died" in bytes.fromhex(r0[0].split("panic=")[-1]).decode(errors="replace") if "panic=" in r0[0] else r0[0].startswith("st=3")):
                    bad_pkgs.add(l.split(" ")[1])
            for c, l in todo:
                if c not in res and l.split(" ")[1] in bad_pkgs:
                    res[c] = ["st=3 SKIPPED-after-runaway"]
            remaining = [(c, l) for c, l in todo if c not in res]
            if len(remaining) == len(todo) or restarts > 60:
                break
            todo = remaining
            restarts += 1
        return res

    def run_parallel(self, reqs, k=16, timeout=900):
        """serve the requests in groups of k concurrent goroutines; returns ({cid: obs list}, stderr, rc)"""
        lines = []
        for cid, key, entry, memo, size, width, inputs in reqs:
            it = self.items[key]
            hx = ";".join((i.encode("utf-8", errors="surrogatepass") if isinstance(i, str) else i).hex() for i in inputs)
            lines.append("%s %d %d %d %d %s %s" % (cid, it["idx"], entry, 1 if memo else 0, size, width, hx))
        text = []
        for i in range(0, len(lines), k):
            grp = lines[i:i + k]
            text.append("PAR %d" % len(grp))
            text += grp
        rc, out, err = C.run([self.exe], input="\n".join(text) + "\n", timeout=timeout, env=C.GOENV)
        res = {}
        for line in out.split("\n"):
            if line.startswith("res "):
                parts = line.split(" ", 2)
                if len(parts) == 3:
                    res[parts[1]] = parts[2].split(" | ")
        return res, err, rc

    def nils(self, key):
        it = self.items[key]
        rc, out, err = C.run([self.exe], input="n %d nils\n" % it["idx"], timeout=60)
        m = re.search(r"nils=([01]*)", out)
        return m.group(1) if m else None

    def cleanup(self):
        shutil.rmtree(self.dir, ignore_errors=True)


def parse_obs(s):
    d = {}
    for part in s.split(" "):
        if "=" in part:
            k, v = part.split("=", 1)
            d[k] = v
    return d


def runes_of(inp):
    """Go's []rune(string): one U+FFFD per undecodable byte"""
    b = inp.encode("utf-8", errors="surrogatepass") if isinstance(inp, str) else inp
    out, i, n = [], 0, len(b)
    while i < n:
        c = b[i]
        if c < 0x80:
            out.append(c); i += 1; continue
        if 0xC2 <= c <= 0xDF and i + 1 < n and 0x80 <= b[i + 1] <= 0xBF:
            out.append(((c & 0x1F) << 6) | (b[i + 1] & 0x3F)); i += 2; continue
        if 0xE0 <= c <= 0xEF and i + 2 < n:
            lo = 0xA0 if c == 0xE0 else 0x80
            hi = 0x9F if c == 0xED else 0xBF
            if lo <= b[i + 1] <= hi and 0x80 <= b[i + 2] <= 0xBF:
                out.append(((c & 0x0F) << 12) | ((b[i + 1] & 0x3F) << 6) | (b[i + 2] & 0x3F)); i += 3; continue
        if 0xF0 <= c <= 0xF4 and i + 3 < n:
            lo = 0x90 if c == 0xF0 else 0x80
            hi = 0x8F if c == 0xF4 else 0xBF
            if lo <= b[i + 1] <= hi and 0x80 <= b[i + 2] <= 0xBF and 0x80 <= b[i + 3] <= 0xBF:
                out.append(((c & 0x07) << 18) | ((b[i + 1] & 0x3F) << 12) | ((b[i + 2] & 0x3F) << 6) | (b[i + 3] & 0x3F)); i += 4; continue
        out.append(0xFFFD); i += 1
    return out


class Model:
    def __init__(self):
        self.exe = C.ensure_model()

    def run(self, lines, timeout=900):
        # the driver is single-threaded: lines are grouped by the grammar they refer to and the groups are spread
        # over parallel driver processes (a line's first argument is <grammar id>/<option set>...)
        groups = {}
        order = []
        for ln in lines:
            parts = ln.split(" ", 2)
            key = parts[1].split("/")[0] if len(parts) > 1 and parts[0] in ("grammar", "run", "spec", "gen", "emit", "semit", "opt", "link") else ""
            if key not in groups:
                groups[key] = []
                order.append(key)
            groups[key].append(ln)
        nproc = max(1, min(16, len(order)))
        chunks = [[] for _ in range(nproc)]
        sizes = [0] * nproc
        for key in sorted(order, key=lambda k: -sum(len(x) for x in groups[k])):
            i = sizes.index(min(sizes))
            chunks[i].extend(groups[key])
            sizes[i] += sum(len(x) for x in groups[key])
        import concurrent.futures

        def one(chunk):
            if not chunk:
                return 0, "", ""
            return C.run(["bash", "-c", "ulimit -s unlimited 2>/dev/null; exec " + self.exe], input="\n".join(chunk) + "\n", timeout=timeout)
        with concurrent.futures.ThreadPoolExecutor(max_workers=nproc) as ex:
            results = list(ex.map(one, chunks))
        out = ""
        for rc, o, err in results:
            if rc != 0 and rc != 124:
                raise RuntimeError("model driver failed rc=%s: %s" % (rc, err[-2000:]))
            out += o + "\n"
        res = {}
        errs = []
        for line in out.split("\n"):
            if line.startswith("run ") or line.startswith("spec "):
                head, rest = line.split(" :: ", 1)
                parts = head.split(" ")
                res[(parts[0], parts[2])] = rest
            elif line.startswith("opt "):
                head, rest = line.split(" :: ", 1)
                res[("opt", head.split(" ")[1])] = rest
            elif line.startswith("gen "):
                head, rest = line.split(" :: ", 1)
                res[("gen", head.split(" ")[1])] = rest
            elif line.startswith("emit "):
                head, rest = line.split(" :: ", 1)
                res[("emit", head.split(" ")[1])] = rest
            elif line.startswith("semit "):
                head, rest = line.split(" :: ", 1)
                res[("semit", head.split(" ")[1])] = rest
            elif line.startswith("link "):
                head, rest = line.split(" :: ", 1)
                res[("link", head.split(" ")[1])] = rest
            elif line.startswith("ERR"):
                errs.append(line)
        return res, errs
